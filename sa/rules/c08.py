"""C08 - regridding is exact on nodes, conserves variance and respects the circle (structural clauses)."""
import ast

from ..cfg import CFG
from ..model import UNKNOWN, call_name, kwarg, unparse
from ..order import OrderAnalysis
from ..report import AnalysisError

Q = "wavespectra.core.utils.regrid_spec"


def _if_with(fi, pred):
    return [n for n in ast.walk(fi.node) if isinstance(n, ast.If) and pred(n)]


def _concat_sequence(fi, D, repo):
    """Names in the list handed to xr.concat(.., dim=<dir>) in the order they end up in it (list literal and appends, in source order;
    a later literal assignment replaces the list)."""
    lname = None
    for c in ast.walk(fi.node):
        if isinstance(c, ast.Call) and call_name(c) in ("xr.concat", "xarray.concat") and c.args and isinstance(c.args[0], ast.Name) \
                and kwarg(c, "dim") is not None and repo.const(fi.module, kwarg(c, "dim")) == D:
            lname = c.args[0].id
    if lname is None:
        return []
    events = []
    for a in ast.walk(fi.node):
        if isinstance(a, ast.Assign) and isinstance(a.targets[0], ast.Name) and a.targets[0].id == lname and isinstance(a.value, (ast.List, ast.Tuple)):
            events.append((a.lineno, a.col_offset, "set", [unparse(e) for e in a.value.elts]))
        elif isinstance(a, ast.Call) and isinstance(a.func, ast.Attribute) and a.func.attr in ("append", "insert") and unparse(a.func.value) == lname and a.args:
            if a.func.attr == "append":
                events.append((a.lineno, a.col_offset, "append", unparse(a.args[0])))
            else:
                events.append((a.lineno, a.col_offset, "insert", (repo.const(fi.module, a.args[0]), unparse(a.args[1]) if len(a.args) > 1 else "?")))
    seq = []
    for _, _, kind, v in sorted(events, key=lambda e: (e[0], e[1])):
        if kind == "set":
            # a literal that repeats names already collected keeps their relative order and adds the new ones where it puts them
            seq = list(v)
        elif kind == "append":
            seq.append(v)
        elif kind == "insert" and isinstance(v[0], int):
            seq.insert(v[0], v[1])
    return seq


def interp_zero_fill(repo, rep, rule):
    """np.interp in interp_spec (the regridding kernel shared by SpecArray.interp and the multi-file TRIAXYS reader) gives zero energy outside the source range."""
    isf = repo.func("wavespectra.core.utils.interp_spec")
    nint = 0
    for c_ in ast.walk(isf.node):
        if isinstance(c_, ast.Call) and call_name(c_) in ("np.interp", "numpy.interp"):
            nint += 1
            vals = {k: (repo.const(isf.module, kwarg(c_, k)) if kwarg(c_, k) is not None else "absent") for k in ("left", "right")}
            if len(c_.args) >= 4:
                vals["left"] = repo.const(isf.module, c_.args[3])
            if len(c_.args) >= 5:
                vals["right"] = repo.const(isf.module, c_.args[4])
            if vals["left"] == 0 and vals["right"] == 0:
                rep.ok(rule, f"{isf.file}:{c_.lineno} interp_spec", unparse(c_)[:90], "zero energy below and above the source frequencies")
            else:
                rep.fail(rule, isf.file, c_.lineno, isf.qualname, unparse(c_)[:110],
                         f"np.interp(left={vals['left']}, right={vals['right']}): outside the source range np.interp repeats the end values by "
                         "default, so target frequencies above the highest source frequency get the last bin's energy instead of zero")
    return nint


def run(repo, rep, tier):
    from .round7b import hygiene
    hygiene(repo, rep, "C08", ('wavespectra.core.utils', 'wavespectra.specarray'), falsy=True)
    rep.rule("R-C08-8", "(shared with C05) the regridding kernels flatten in index order only: spectrum values stay paired with their (freq, dir) nodes "
                        "whatever the memory layout of the input")
    from .shared import layout_independent_flattening
    layout_independent_flattening(repo, rep, "R-C08-8")
    rep.rule("R-C08-7", "(shared with C05) direction bin widths are taken circularly: the width enters the variance the regridding conserves and the "
                        "energy <-> density conversion of the writers / readers")
    from .c05 import circular_width
    circular_width(repo, rep, "R-C08-7")
    rep.rule("R-C08-6", "every parameter of the functions behind this property is read (regridding): none is accepted and then ignored, and no control parameter (cutoff, limit, tolerance, window, count, switch) is replaced by another value before use (coercion and default filling aside)")
    from .shared import unused_parameters
    unused_parameters(repo, rep, "R-C08-6", ("wavespectra.core.utils.regrid_spec", "wavespectra.core.utils.interp_spec", "wavespectra.core.utils.unique_indices", "wavespectra.specarray.SpecArray.interp", "wavespectra.specarray.SpecArray.interp_like", "wavespectra.specarray.SpecArray.rotate"), "regridding")
    rep.rule("R-C08-5", "the target freq / dir arguments reach the output coordinates unchanged (array coercion only)")
    rep.rule("R-C08-1", "circular padding pairs: the LAST sorted direction relabelled -360 in front when the target reaches below the "
                        "source minimum; the FIRST relabelled +360 behind when it reaches above the maximum")
    rep.rule("R-C08-2", "frequency interpolation fills 0 beyond the source range; a zero-energy anchor at f=0 is prepended when the "
                        "target reaches below the lowest source frequency")
    rep.rule("R-C08-3", "variance rescaling by hs(source)^2 / hs(result)^2 (default accessor Hs on both) is the last value-changing "
                        "step, per spectrum, on by default in regrid_spec / interp / interp_like")
    rep.rule("R-C08-4", "directions are normalised % 360, de-duplicated and sorted BEFORE padding; rotate relabels (dir + angle) % 360 "
                        "and regrids onto the original directions")
    rep.rule("R-C08-5", "(shared with C05) no positional use of caller-ordered directions; labels follow data")
    fi = repo.func(Q)
    D, F = repo.attrs.DIRNAME, repo.attrs.FREQNAME
    dset, freq, dirp, mm0 = fi.params[:4]
    from ..astutil import factors, resolve
    rets = [n for n in ast.walk(fi.node) if isinstance(n, ast.Return) and n.value is not None]
    if len(rets) != 1 or not isinstance(rets[0].value, ast.Name):
        raise AnalysisError("regrid_spec: single `return <name>` expected")
    OUT = rets[0].value.id
    # a returned temporary (return split) is followed back to the working object
    last = [a for a in ast.walk(fi.node) if isinstance(a, ast.Assign) and isinstance(a.targets[0], ast.Name) and a.targets[0].id == OUT]
    if len(last) == 1 and isinstance(last[0].value, ast.Name):
        OUT = last[0].value.id
    # ---- R-C08-1 --------------------------------------------------------------------------------------
    pads = []
    for n in ast.walk(fi.node):
        if isinstance(n, ast.If) and isinstance(n.test, ast.Compare) and len(n.test.ops) == 1 and \
                isinstance(n.test.ops[0], (ast.Lt, ast.Gt, ast.LtE, ast.GtE)):
            t = n.test
            l, r = t.left, t.comparators[0]
            def red(e):
                if isinstance(e, ast.Call) and isinstance(e.func, ast.Attribute) and e.func.attr in ("min", "max"):
                    return (unparse(e.func.value), e.func.attr)
                return None
            rl, rr = red(l), red(r)
            opn = type(t.ops[0])
            if rl is not None and rr is not None and rl[0] != dirp and rr[0] == dirp:
                # orientation: the TARGET grid's extreme on the left
                rl, rr = rr, rl
                opn = {ast.Lt: ast.Gt, ast.LtE: ast.GtE, ast.Gt: ast.Lt, ast.GtE: ast.LtE}[opn]
            isels = [x for x in ast.walk(n) if isinstance(x, ast.Call) and isinstance(x.func, ast.Attribute) and x.func.attr == "isel"
                     and any(k.arg == D for k in x.keywords)]
            if not isels:
                continue
            if rl is None or rr is None:
                pads.append(n)
                rep.fail("R-C08-1", fi.file, n.lineno, fi.qualname, "if " + unparse(t),
                         "whether a seam neighbour is needed must be decided from the target's min()/max() against the sorted source's "
                         "min()/max(): the target grid need not be sorted")
                continue
            idx = repo.const(fi.module, [k.value for k in isels[0].keywords if k.arg == D][0])
            shift = None
            for b in ast.walk(n):
                if isinstance(b, ast.BinOp) and isinstance(b.op, (ast.Add, ast.Sub)) and repo.const(fi.module, b.right) == 360:
                    shift = 360 if isinstance(b.op, ast.Add) else -360
            # position: to_concat = [highest, dsout] (front) or to_concat.append(lowest) (back)
            # position of the padded copy relative to the data in the list handed to concat: the list is built by a literal and / or
            # appends, possibly inside the two guards; in source order that gives  [first-pad?] data [second-pad?]
            padname = None
            for a in ast.walk(n):
                if isinstance(a, ast.Assign) and isinstance(a.targets[0], ast.Name) and any(x is isels[0] for x in ast.walk(a.value)):
                    padname = a.targets[0].id
            seq_ = _concat_sequence(fi, D, repo)
            front = back = False
            if padname in seq_ and OUT in seq_:
                front = seq_.index(padname) < seq_.index(OUT)
                back = not front
            sense = (rl[1], type(t.ops[0]).__name__, rr[1], rl[0] == dirp, rr[0].endswith(f".{D}") or rr[0].endswith(f"[{D!r}]"))
            below = rl[1] == "min" and opn is ast.Lt and rr[1] == "min"
            above = rl[1] == "max" and opn is ast.Gt and rr[1] == "max"
            legal = (below and idx == -1 and shift == -360 and front and not back) or (above and idx == 0 and shift == 360 and back)
            pads.append(n)
            if legal and rl[0] == dirp:
                rep.ok("R-C08-1", f"{fi.file}:{n.lineno} regrid_spec", f"if {unparse(t)}: isel({D}={idx}) {shift:+d} {'in front' if front and not back else 'behind'}",
                       "seam neighbour taken from the far end, relabelled across the seam, placed on the matching side")
            else:
                rep.fail("R-C08-1", fi.file, n.lineno, fi.qualname, f"if {unparse(t)}: isel({D}={idx}), shift {shift}, {'front' if front and not back else 'back'}",
                         "illegal pairing: below the source minimum needs the LAST direction -360 in front; above the maximum needs the "
                         "FIRST direction +360 behind")
    if len(pads) != 2:
        raise AnalysisError(f"regrid_spec: expected two seam-padding branches, found {len(pads)}")
    # ---- R-C08-4 order of normalisation steps ---------------------------------------------------------
    seq = []

    def _spine(v):
        """calls along the receiver spine of a chained expression, innermost first: a.m1(..).m2(..) -> [m1-call, m2-call]; f(x.m(..), ..) -> [m-call, f-call]"""
        if isinstance(v, ast.Call) and isinstance(v.func, ast.Attribute):
            return _spine(v.func.value) + [v]
        if isinstance(v, ast.Call) and isinstance(v.func, ast.Name) and v.args:
            return _spine(v.args[0]) + [v]
        return []
    for s in ast.walk(fi.node):
        if isinstance(s, ast.Assign) and isinstance(s.targets[0], ast.Name) and s.targets[0].id == OUT:
            for k_step, v in enumerate(_spine(s.value)):
                where_ = (s.lineno, k_step)
                is_mod = False
                if isinstance(v.func, ast.Attribute) and v.func.attr == "assign_coords":
                    for d_ in [a_ for a_ in v.args if isinstance(a_, ast.Dict)]:
                        for vv in d_.values:
                            vv = resolve(fi.node, vv, before=s.lineno) if isinstance(vv, ast.Name) else vv
                            if any(isinstance(x, ast.BinOp) and isinstance(x.op, ast.Mod) and repo.const(fi.module, x.right) == 360 for x in ast.walk(vv)):
                                is_mod = True
                    for k_ in v.keywords:
                        vv = resolve(fi.node, k_.value, before=s.lineno) if isinstance(k_.value, ast.Name) else k_.value
                        if any(isinstance(x, ast.BinOp) and isinstance(x.op, ast.Mod) and repo.const(fi.module, x.right) == 360 for x in ast.walk(vv)):
                            is_mod = True
                if is_mod:
                    seq.append(("mod", where_))
                elif call_name(v).split(".")[-1] == "unique_indices" or (isinstance(v.func, ast.Attribute) and v.func.attr == "isel" and any(
                        isinstance(a_, ast.Assign) and isinstance(a_.value, ast.Call) and call_name(a_.value).split(".")[-1] == "unique" and
                        isinstance(a_.targets[0], (ast.Tuple, ast.List)) and any(isinstance(e_, ast.Name) and any(
                            isinstance(k_.value, ast.Name) and k_.value.id == e_.id for k_ in v.keywords) for e_ in a_.targets[0].elts)
                        for a_ in ast.walk(fi.node))):
                    # de-duplication: the helper, or its body  `_, index = np.unique(x[dir], return_index=True); x.isel(dir=index)`
                    seq.append(("unique", where_))
                elif isinstance(v.func, ast.Attribute) and v.func.attr == "sortby":
                    seq.append(("sort", where_))
                elif call_name(v) in ("xr.concat", "xarray.concat") and kwarg(v, "dim") is not None and repo.const(fi.module, kwarg(v, "dim")) == D:
                    seq.append(("concat", where_))
                elif isinstance(v.func, ast.Attribute) and v.func.attr == "interp" and any(k.arg == D for k in v.keywords):
                    seq.append(("interp_dir", where_))
    names = [a for a, _ in sorted(seq, key=lambda x: x[1])]
    if names == ["mod", "unique", "sort", "concat", "interp_dir"] and all(p.lineno > dict(seq)["sort"][0] for p in pads):
        rep.ok("R-C08-4", f"{fi.file} regrid_spec", " -> ".join(names), "% 360, de-duplicate, sort, then pad across the seam, then interpolate")
    else:
        rep.fail("R-C08-4", fi.file, fi.node.lineno, fi.qualname, " -> ".join(names),
                 "directions must be reduced modulo 360, de-duplicated and sorted before the seam neighbours are taken (isel(0)/isel(-1) "
                 "are only the circular neighbours of a sorted, unique sequence)")
    # ---- R-C08-2 --------------------------------------------------------------------------------------
    interps = [n for n in ast.walk(fi.node) if isinstance(n, ast.Call) and isinstance(n.func, ast.Attribute) and n.func.attr == "interp"
               and any(k.arg == F for k in n.keywords)]
    if len(interps) != 1:
        raise AnalysisError("regrid_spec: frequency interp call not found")
    kw = kwarg(interps[0], "kwargs")
    fv = None
    if kw is not None:
        v = repo.const(fi.module, kw)
        if isinstance(v, dict):
            fv = v.get("fill_value", "absent")
    if fv == 0:
        rep.ok("R-C08-2", f"{fi.file}:{interps[0].lineno} regrid_spec", unparse(interps[0])[:100], "zero energy outside the source frequency range")
    else:
        rep.fail("R-C08-2", fi.file, interps[0].lineno, fi.qualname, unparse(interps[0])[:120],
                 f"fill_value={fv!r}: target frequencies above the highest source frequency must get zero energy (not NaN / extrapolation)")
    def _is_zero_copy(v):
        fs = factors(v)
        return len(fs) == 2 and any(repo.const(fi.module, f) == 0 for f in fs) and any(
            isinstance(f, ast.Call) and isinstance(f.func, ast.Attribute) and f.func.attr == "isel" and unparse(f.func.value) == OUT for f in fs)
    anchor = _if_with(fi, lambda n: any(isinstance(b, ast.Assign) and _is_zero_copy(b.value) for b in n.body))
    ok = False
    if anchor:
        a = anchor[0]
        z = [b for b in a.body if isinstance(b, ast.Assign) and _is_zero_copy(b.value)][0].targets[0].id
        t = a.test
        from ..astutil import rel as _rel
        g_ = _rel(t, lambda e: unparse(e).replace(" ", "") == f"{freq}.min()")
        guard_ok = g_ is not None and g_[1] == "<" and unparse(g_[2]).replace(" ", "") in (f"{OUT}.{F}.min()", f"{OUT}['{F}'].min()")
        relabel = any(isinstance(b, ast.Assign) and isinstance(b.targets[0], ast.Subscript) and unparse(b.targets[0].value) == z and
                      repo.const(fi.module, b.targets[0].slice) == F and repo.const(fi.module, b.value) == 0 for b in a.body)
        front = any(isinstance(b, ast.Assign) and isinstance(b.value, ast.Call) and call_name(b.value) in ("xr.concat", "xarray.concat") and b.value.args and
                    isinstance(b.value.args[0], (ast.List, ast.Tuple)) and [unparse(e) for e in b.value.args[0].elts] == [z, OUT] and
                    repo.const(fi.module, kwarg(b.value, "dim")) == F for b in a.body)
        ok = guard_ok and relabel and front
    if ok:
        rep.ok("R-C08-2", f"{fi.file}:{anchor[0].lineno} regrid_spec", "f=0 zero-energy anchor prepended when the target reaches below the lowest frequency", "E(f=0)=0")
    else:
        rep.fail("R-C08-2", fi.file, anchor[0].lineno if anchor else fi.node.lineno, fi.qualname, "f=0 anchor",
                 "below the lowest source frequency the spectrum must be interpolated towards zero energy at f=0 (zero-valued copy of a bin, "
                 "relabelled 0, placed in front, guarded by target.min() < source.min())")
    # ---- R-C08-3 --------------------------------------------------------------------------------------
    scale = _if_with(fi, lambda n: unparse(n.test) == mm0)
    if len(scale) != 1:
        raise AnalysisError("regrid_spec: maintain_m0 branch not found")
    sc = scale[0]
    hs_calls = [n for n in ast.walk(sc) if isinstance(n, ast.Call) and isinstance(n.func, ast.Attribute) and n.func.attr == "hs"]
    owners = sorted(unparse(c.func.value).split(".")[0] for c in hs_calls)
    args_ok = all(not c.args and not c.keywords for c in hs_calls)
    ratio = [n for n in ast.walk(sc) if isinstance(n, ast.BinOp) and isinstance(n.op, ast.Div)]
    good = len(hs_calls) == 2 and owners == sorted([dset, OUT]) and ratio and \
        unparse(ratio[0].left).startswith(dset) and unparse(ratio[0].right).startswith(OUT) and \
        "** 2" in unparse(ratio[0].left) and "** 2" in unparse(ratio[0].right)
    if good and args_ok:
        rep.ok("R-C08-3", f"{fi.file}:{sc.lineno} regrid_spec", unparse(ratio[0]), "factor = Hs(source)^2 / Hs(result)^2 with the accessor's default Hs")
    elif good:
        rep.fail("R-C08-3", fi.file, sc.lineno, fi.qualname, unparse(ratio[0]),
                 "the factor must be built from the SAME significant height the accessor reports (hs() with default arguments): with "
                 "another variant (e.g. tail=False) the regridded spectrum's reported Hs differs from the source's whenever the tail term applies")
    else:
        rep.fail("R-C08-3", fi.file, sc.lineno, fi.qualname, unparse(sc)[:140], "variance conservation must scale by hs(source)**2 / hs(result)**2")
    mul = [n for n in ast.walk(sc) if isinstance(n, ast.Assign) and unparse(n.targets[0]) == OUT and isinstance(n.value, ast.BinOp) and isinstance(n.value.op, ast.Mult)]
    if not mul:
        rep.fail("R-C08-3", fi.file, sc.lineno, fi.qualname, unparse(sc)[:120], "the factor is not applied to the result")
    # nothing changes values afterwards
    after = fi.node.body[fi.node.body.index(sc) + 1:]
    for s in after:
        for n in ast.walk(s):
            if isinstance(n, ast.Assign) and unparse(n.targets[0]) == OUT or isinstance(n, ast.AugAssign) and unparse(n.target) == OUT:
                rep.fail("R-C08-3", fi.file, n.lineno, fi.qualname, unparse(n)[:100], "the result's values are modified after the variance rescaling")
    guards = [unparse(x.test) for x in ast.walk(sc) if isinstance(x, ast.If) and x is not sc]
    if guards:
        rep.fail("R-C08-3", fi.file, sc.lineno, fi.qualname, "; ".join(guards), "the rescaling is conditional on a dataset-wide test")
    for q in (Q, "wavespectra.specarray.SpecArray.interp", "wavespectra.specarray.SpecArray.interp_like"):
        f2 = repo.func(q)
        a = f2.node.args
        pos = a.posonlyargs + a.args
        dflt = dict(zip([p.arg for p in pos[len(pos) - len(a.defaults):]], a.defaults))
        if mm0 in dflt and repo.const(f2.module, dflt[mm0]) is True:
            rep.ok("R-C08-3", f"{f2.file}:{f2.node.lineno} {f2.short}", f"{mm0}=True", "variance conservation on by default")
        else:
            rep.fail("R-C08-3", f2.file, f2.node.lineno, f2.qualname, f"default of {mm0}", "variance conservation must be the default")
    for q in ("wavespectra.specarray.SpecArray.interp", "wavespectra.specarray.SpecArray.interp_like"):
        f2 = repo.func(q)
        from ..astutil import bound_args
        fw = [bound_args(repo, f2, c_) for c_ in ast.walk(f2.node) if isinstance(c_, ast.Call) and call_name(c_).split(".")[-1] in ("regrid_spec", "interp")]
        if not any(b_ is not None and mm0 in b_ and unparse(b_[mm0]) == mm0 for b_ in fw):
            rep.fail("R-C08-3", f2.file, f2.node.lineno, f2.qualname, "forwarding of maintain_m0", "the accessor must pass maintain_m0 through")
    # every caller inside the package keeps variance conservation on (or forwards its own switch)
    ncall = 0
    for f3 in repo.all_funcs():
        for c_ in ast.walk(f3.node):
            if isinstance(c_, ast.Call) and call_name(c_).split(".")[-1] == "regrid_spec":
                ncall += 1
                k_ = kwarg(c_, mm0)
                if k_ is None:
                    continue
                if (isinstance(k_, ast.Name) and k_.id in f3.params) or repo.const(f3.module, k_) is True:
                    rep.ok("R-C08-3", f"{f3.file}:{c_.lineno} {f3.short}", f"{mm0}={unparse(k_)}", "forwarded / on")
                else:
                    rep.fail("R-C08-3", f3.file, c_.lineno, f3.qualname, unparse(c_)[:110],
                             f"{f3.short} switches variance conservation off: on irregular, partially covering or duplicated-bin direction "
                             "grids the interpolated spectrum no longer has the input's Hs", anchor=f"regrid-caller:{f3.short}:{mm0}")
    rep.floor("R-C08-3", "callers of regrid_spec", ncall, 3)
    # the requested coordinates are returned as given: the target parameters are only coerced to arrays, never recomputed
    for pn in (freq, dirp):
        for a_ in ast.walk(fi.node):
            if isinstance(a_, (ast.Assign, ast.AugAssign)):
                tg = a_.targets if isinstance(a_, ast.Assign) else [a_.target]
                if any(isinstance(t_, ast.Name) and t_.id == pn for t_ in tg):
                    v_ = a_.value
                    coercion = isinstance(a_, ast.Assign) and isinstance(v_, ast.Call) and call_name(v_).split(".")[-1] in ("array", "asarray", "atleast_1d", "asanyarray") \
                        and v_.args and unparse(v_.args[0]) == pn
                    from .shared import _coerced_param_table
                    if not coercion and isinstance(a_, ast.Assign) and isinstance(v_, ast.Subscript) and isinstance(v_.value, ast.Name) \
                            and _coerced_param_table(fi.node, v_.value.id, v_.slice, pn):
                        coercion = True       # read back from a local table of the parameters whose entries are only coerced in place
                    if coercion:
                        rep.ok("R-C08-5", f"{fi.file}:{a_.lineno} regrid_spec", unparse(a_), "type coercion only: values are the caller's")
                    else:
                        rep.fail("R-C08-5", fi.file, a_.lineno, fi.qualname, unparse(a_)[:100],
                                 f"the target '{pn}' values are recomputed before they become the output coordinate: the result no longer carries "
                                 "exactly the requested coordinates (e.g. 360 comes back as 0, negative directions shifted)", anchor=f"regrid-target:{pn}")
    # ... and the accessor wrappers hand the caller's targets on as they are: no definition of a target that depends on the source grid
    from ..astutil import bound_args as _ba
    for q in ("wavespectra.specarray.SpecArray.interp", "wavespectra.specarray.SpecArray.interp_like"):
        f2 = repo.func(q)
        calls_ = [c_ for c_ in ast.walk(f2.node) if isinstance(c_, ast.Call) and call_name(c_).split(".")[-1] in ("regrid_spec", "interp")]
        b_ = next((x for x in (_ba(repo, f2, c_) for c_ in calls_) if x is not None), None)
        if b_ is None:
            raise AnalysisError(f"{f2.short}: forwarding call to the regridding routine not found")
        for pn in ("freq", "dir"):
            arg = b_.get(pn) or b_.get({"freq": freq, "dir": dirp}[pn])
            if arg is None:
                rep.fail("R-C08-5", f2.file, f2.node.lineno, f2.qualname, f"target {pn}", f"the requested {pn} coordinate is not handed to the regridding routine")
                continue
            if not isinstance(arg, ast.Name):
                okexpr = not any(isinstance(x, ast.Name) and x.id == "self" for x in ast.walk(arg))
                (rep.ok if okexpr else rep.fail)("R-C08-5", *((f"{f2.file}:{f2.node.lineno} {f2.short}", unparse(arg), "target expression does not involve the source")
                                                        if okexpr else (f2.file, f2.node.lineno, f2.qualname, unparse(arg), "the target handed on depends on the source grid")))
                continue
            defs_ = []

            def coll(stmts_, conds):
                for st in stmts_:
                    if isinstance(st, ast.If):
                        coll(st.body, conds + [st.test])
                        coll(st.orelse, conds + [st.test])
                    elif isinstance(st, (ast.Assign, ast.AugAssign)) and any(isinstance(t_, ast.Name) and t_.id == arg.id for t_ in (st.targets if isinstance(st, ast.Assign) else [st.target])):
                        defs_.append((st, conds))
                    elif isinstance(st, (ast.For, ast.While, ast.With, ast.Try)):
                        coll(getattr(st, "body", []), conds)
            coll(f2.node.body, [])
            bad_ = None
            for st, conds in defs_:
                dep_self = any(isinstance(x, ast.Name) and x.id == "self" for c_ in conds + [st.value] for x in ast.walk(c_))
                # filling in a default for an absent target is not a redefinition:  if freq is None: freq = self.freq
                is_default = bool(conds) and all(isinstance(c_, ast.Compare) and len(c_.ops) == 1 and isinstance(c_.ops[0], ast.Is) and
                                                 isinstance(c_.left, ast.Name) and c_.left.id == arg.id and
                                                 isinstance(c_.comparators[0], ast.Constant) and c_.comparators[0].value is None for c_ in conds)
                if dep_self and not is_default:
                    bad_ = st
            if bad_ is not None:
                rep.fail("R-C08-5", f2.file, bad_.lineno, f2.qualname, unparse(bad_)[:100],
                         f"the target '{arg.id}' is redefined depending on the source grid (e.g. dropped when it 'equals' the source): the result then "
                         "keeps the source's coordinate values / order instead of exactly the requested ones", anchor=f"accessor-target:{f2.short}:{pn}")
            else:
                rep.ok("R-C08-5", f"{f2.file}:{f2.node.lineno} {f2.short}", f"{pn} -> {arg.id} ({len(defs_)} definition(s))", "the caller's target reaches the regridding routine unchanged")
    # ---- the de-duplication keeps one representative of each direction --------------------------------------------
    ui = repo.func("wavespectra.core.utils.unique_indices")
    dedup = 0
    for f2 in (ui, fi):
        for c_ in ast.walk(f2.node):
            if isinstance(c_, ast.Call) and isinstance(c_.func, ast.Attribute) and c_.func.attr == "drop_duplicates":
                dedup += 1
                kp = kwarg(c_, "keep")
                kv = repo.const(f2.module, kp) if kp is not None else "first"
                if kv not in ("first", "last"):
                    rep.fail("R-C08-4", f2.file, c_.lineno, f2.qualname, unparse(c_)[:100],
                             f"drop_duplicates(keep={kv!r}) removes EVERY member of a duplicated direction (0 and 360 both disappear): the "
                             "de-duplication must keep one representative")
                else:
                    rep.ok("R-C08-4", f"{f2.file}:{c_.lineno} {f2.short}", unparse(c_)[:80], "keeps one representative per direction")
            if isinstance(c_, ast.Call) and call_name(c_).split(".")[-1] == "unique" and kwarg(c_, "return_index") is not None:
                dedup += 1
                rep.ok("R-C08-4", f"{f2.file}:{c_.lineno} {f2.short}", unparse(c_)[:80], "first occurrence of each direction kept")
    if not dedup:
        raise AnalysisError("regrid_spec / unique_indices: de-duplication step not recognised")
    nint = interp_zero_fill(repo, rep, "R-C08-2")
    rep.floor("R-C08-2", "np.interp calls in interp_spec", nint, 2)
    # ---- rotate ---------------------------------------------------------------------------------------
    rt = repo.func("wavespectra.specarray.SpecArray.rotate")
    Qp0 = repo.func(Q).params[0]
    from ..astutil import returns as _returns
    rr = _returns(rt.node)
    ok = False
    if len(rr) == 1:
        r0, v0 = rr[0]
        from ..astutil import bound_args
        b0 = bound_args(repo, rt, v0) if isinstance(v0, ast.Call) and call_name(v0) == "regrid_spec" else None
        if b0 is not None and unparse(b0.get("dir")) == "self.dir":
            src = resolve(rt.node, b0[Qp0], before=r0.lineno + 1)
            if isinstance(src, ast.Call) and isinstance(src.func, ast.Attribute) and src.func.attr == "assign_coords" and unparse(src.func.value) == "self._obj":
                lab = None
                for k_ in src.keywords:
                    if k_.arg == D:
                        lab = k_.value
                for a_ in src.args:
                    if isinstance(a_, ast.Dict):
                        for kk, vv in zip(a_.keys, a_.values):
                            if repo.const(rt.module, kk) == D:
                                lab = vv
                if lab is not None and isinstance(lab, ast.BinOp) and isinstance(lab.op, ast.Mod) and repo.const(rt.module, lab.right) == 360:
                    inner = resolve(rt.node, lab.left, before=r0.lineno + 1)
                    it = unparse(inner).replace(" ", "")
                    ok = it in ("self.dir.values+angle", "angle+self.dir.values", "self.dir+angle", "angle+self.dir")
    if ok:
        rep.ok("R-C08-4", f"{rt.file}:{rt.node.lineno} rotate", "relabel (dir + angle) % 360, regrid onto self.dir", "single path for every angle")
    else:
        rep.fail("R-C08-4", rt.file, rt.node.lineno, rt.qualname, "rotate", "rotation must relabel directions by (dir + angle) % 360 and regrid onto the original directions on every path")
    # ---- R-C08-5 --------------------------------------------------------------------------------------
    n = 0
    for f2 in (fi, rt, repo.func("wavespectra.core.utils.unique_indices")):
        oa = OrderAnalysis(repo, f2, D)
        for kind, node, msg in oa.run():
            rep.fail("R-C08-5", f2.file, node.lineno, f2.qualname, unparse(node)[:120], msg)
        n += oa.checked
    rep.ok("R-C08-5", "regrid_spec / rotate", f"{n} order-sensitive operations", "positional ops only on the object sorted here")
    rep.trust("Python ast; xarray interp(kwargs=fill_value) semantics")
    rep.note("not decided (numeric properties of linear interpolation): identity on identical grids, non-negativity, exact Hs, "
             "whole-bin rotation equals a circular shift")
    return ("Static structural rules over regrid_spec / rotate: legal (guard sense, end index, relabel sign, side) tuples of the seam "
            "padding with order-insensitive guards, CFG order of the direction normalisation steps, zero fill and zero anchor of the "
            "frequency interpolation, the variance-rescaling factor (which Hs, which objects), its being last and unconditional, "
            "defaults and forwarding of maintain_m0, and order provenance.")
