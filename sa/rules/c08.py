"""C08 - regridding is exact on nodes, conserves variance and respects the circle (structural clauses)."""
import ast

from ..cfg import CFG
from ..model import UNKNOWN, call_name, kwarg, unparse
from ..order import OrderAnalysis
from ..report import AnalysisError

Q = "wavespectra.core.utils.regrid_spec"


def _if_with(fi, pred):
    return [n for n in ast.walk(fi.node) if isinstance(n, ast.If) and pred(n)]


def run(repo, rep, tier):
    rep.rule("R-C08-1", "circular padding pairs: the LAST sorted direction relabelled -360 in front when the target reaches below the "
                        "source minimum; the FIRST relabelled +360 behind when it reaches above the maximum")
    rep.rule("R-C08-2", "frequency interpolation fills 0 beyond the source range; a zero-energy anchor at f=0 is prepended when the "
                        "target reaches below the lowest source frequency")
    rep.rule("R-C08-3", "variance rescaling by hs(source)^2 / hs(result)^2 (default accessor Hs on both) is the last value-changing "
                        "step, per spectrum, on by default in regrid_spec / interp / interp_like")
    rep.rule("R-C08-4", "directions are normalised % 360, de-duplicated and sorted BEFORE padding; rotate relabels (dir + angle) % 360 "
                        "and regrids onto the original directions")
    rep.rule("R-C08-5", "(shared with C05) no positional use of caller-ordered directions; labels follow data")
    fi = repo.func(Q)
    D, F = repo.attrs.DIRNAME, repo.attrs.FREQNAME
    dset, freq, dirp, mm0 = fi.params[:4]
    # ---- R-C08-1 --------------------------------------------------------------------------------------
    pads = []
    for n in ast.walk(fi.node):
        if isinstance(n, ast.If) and isinstance(n.test, ast.Compare) and len(n.test.ops) == 1 and \
                isinstance(n.test.ops[0], (ast.Lt, ast.Gt, ast.LtE, ast.GtE)):
            t = n.test
            l, r = t.left, t.comparators[0]
            def red(e):
                if isinstance(e, ast.Call) and isinstance(e.func, ast.Attribute) and e.func.attr in ("min", "max"):
                    return (unparse(e.func.value), e.func.attr)
                return None
            rl, rr = red(l), red(r)
            isels = [x for x in ast.walk(n) if isinstance(x, ast.Call) and isinstance(x.func, ast.Attribute) and x.func.attr == "isel"
                     and any(k.arg == D for k in x.keywords)]
            if not isels:
                continue
            if rl is None or rr is None:
                pads.append(n)
                rep.fail("R-C08-1", fi.file, n.lineno, fi.qualname, "if " + unparse(t),
                         "whether a seam neighbour is needed must be decided from the target's min()/max() against the sorted source's "
                         "min()/max(): the target grid need not be sorted")
                continue
            idx = repo.const(fi.module, [k.value for k in isels[0].keywords if k.arg == D][0])
            shift = None
            for b in ast.walk(n):
                if isinstance(b, ast.BinOp) and isinstance(b.op, (ast.Add, ast.Sub)) and repo.const(fi.module, b.right) == 360:
                    shift = 360 if isinstance(b.op, ast.Add) else -360
            # position: to_concat = [highest, dsout] (front) or to_concat.append(lowest) (back)
            front = any(isinstance(a, ast.Assign) and isinstance(a.value, (ast.List, ast.Tuple)) and len(a.value.elts) == 2 and
                        isinstance(a.value.elts[1], ast.Name) for a in ast.walk(n))
            back = any(isinstance(c, ast.Call) and isinstance(c.func, ast.Attribute) and c.func.attr == "append" for c in ast.walk(n))
            sense = (rl[1], type(t.ops[0]).__name__, rr[1], rl[0] == dirp, rr[0].endswith(f".{D}") or rr[0].endswith(f"[{D!r}]"))
            below = rl[1] == "min" and isinstance(t.ops[0], ast.Lt) and rr[1] == "min"
            above = rl[1] == "max" and isinstance(t.ops[0], ast.Gt) and rr[1] == "max"
            legal = (below and idx == -1 and shift == -360 and front and not back) or (above and idx == 0 and shift == 360 and back)
            pads.append(n)
            if legal and rl[0] == dirp:
                rep.ok("R-C08-1", f"{fi.file}:{n.lineno} regrid_spec", f"if {unparse(t)}: isel({D}={idx}) {shift:+d} {'in front' if front and not back else 'behind'}",
                       "seam neighbour taken from the far end, relabelled across the seam, placed on the matching side")
            else:
                rep.fail("R-C08-1", fi.file, n.lineno, fi.qualname, f"if {unparse(t)}: isel({D}={idx}), shift {shift}, {'front' if front and not back else 'back'}",
                         "illegal pairing: below the source minimum needs the LAST direction -360 in front; above the maximum needs the "
                         "FIRST direction +360 behind")
    if len(pads) != 2:
        raise AnalysisError(f"regrid_spec: expected two seam-padding branches, found {len(pads)}")
    # ---- R-C08-4 order of normalisation steps ---------------------------------------------------------
    seq = []
    for s in ast.walk(fi.node):
        if isinstance(s, ast.Assign) and isinstance(s.targets[0], ast.Name) and s.targets[0].id == "dsout":
            t = unparse(s.value)
            if "% 360" in t and "assign_coords" in t:
                seq.append(("mod", s.lineno))
            elif "unique_indices" in t:
                seq.append(("unique", s.lineno))
            elif ".sortby(" in t:
                seq.append(("sort", s.lineno))
            elif "xr.concat(to_concat" in t:
                seq.append(("concat", s.lineno))
            elif ".interp(dir=" in t or f".interp({D}=" in t:
                seq.append(("interp_dir", s.lineno))
    names = [a for a, _ in sorted(seq, key=lambda x: x[1])]
    if names == ["mod", "unique", "sort", "concat", "interp_dir"] and all(p.lineno > dict(seq)["sort"] for p in pads):
        rep.ok("R-C08-4", f"{fi.file} regrid_spec", " -> ".join(names), "% 360, de-duplicate, sort, then pad across the seam, then interpolate")
    else:
        rep.fail("R-C08-4", fi.file, fi.node.lineno, fi.qualname, " -> ".join(names),
                 "directions must be reduced modulo 360, de-duplicated and sorted before the seam neighbours are taken (isel(0)/isel(-1) "
                 "are only the circular neighbours of a sorted, unique sequence)")
    # ---- R-C08-2 --------------------------------------------------------------------------------------
    interps = [n for n in ast.walk(fi.node) if isinstance(n, ast.Call) and isinstance(n.func, ast.Attribute) and n.func.attr == "interp"
               and any(k.arg == F for k in n.keywords)]
    if len(interps) != 1:
        raise AnalysisError("regrid_spec: frequency interp call not found")
    kw = kwarg(interps[0], "kwargs")
    fv = None
    if kw is not None:
        v = repo.const(fi.module, kw)
        if isinstance(v, dict):
            fv = v.get("fill_value", "absent")
    if fv == 0:
        rep.ok("R-C08-2", f"{fi.file}:{interps[0].lineno} regrid_spec", unparse(interps[0])[:100], "zero energy outside the source frequency range")
    else:
        rep.fail("R-C08-2", fi.file, interps[0].lineno, fi.qualname, unparse(interps[0])[:120],
                 f"fill_value={fv!r}: target frequencies above the highest source frequency must get zero energy (not NaN / extrapolation)")
    anchor = _if_with(fi, lambda n: any(isinstance(b, ast.Assign) and unparse(b.targets[0]) == "fzero" for b in n.body))
    ok = False
    if anchor:
        a = anchor[0]
        t = unparse(a.test).replace(" ", "")
        body = unparse(a).replace(" ", "")
        ok = t == f"{freq}.min()<dsout.{F}.min()" and f"fzero=0*dsout.isel({F}=0)" in body and f"fzero['{F}']=0" in body and \
            f"xr.concat([fzero,dsout],dim='{F}')" in body
    if ok:
        rep.ok("R-C08-2", f"{fi.file}:{anchor[0].lineno} regrid_spec", "f=0 zero-energy anchor prepended when the target reaches below the lowest frequency", "E(f=0)=0")
    else:
        rep.fail("R-C08-2", fi.file, anchor[0].lineno if anchor else fi.node.lineno, fi.qualname, "f=0 anchor",
                 "below the lowest source frequency the spectrum must be interpolated towards zero energy at f=0 (zero-valued copy of a bin, "
                 "relabelled 0, placed in front, guarded by target.min() < source.min())")
    # ---- R-C08-3 --------------------------------------------------------------------------------------
    scale = _if_with(fi, lambda n: unparse(n.test) == mm0)
    if len(scale) != 1:
        raise AnalysisError("regrid_spec: maintain_m0 branch not found")
    sc = scale[0]
    hs_calls = [n for n in ast.walk(sc) if isinstance(n, ast.Call) and isinstance(n.func, ast.Attribute) and n.func.attr == "hs"]
    owners = sorted(unparse(c.func.value).split(".")[0] for c in hs_calls)
    args_ok = all(not c.args and not c.keywords for c in hs_calls)
    ratio = [n for n in ast.walk(sc) if isinstance(n, ast.BinOp) and isinstance(n.op, ast.Div)]
    good = len(hs_calls) == 2 and owners == sorted([dset, "dsout"]) and ratio and \
        unparse(ratio[0].left).startswith(dset) and unparse(ratio[0].right).startswith("dsout") and \
        "** 2" in unparse(ratio[0].left) and "** 2" in unparse(ratio[0].right)
    if good and args_ok:
        rep.ok("R-C08-3", f"{fi.file}:{sc.lineno} regrid_spec", unparse(ratio[0]), "factor = Hs(source)^2 / Hs(result)^2 with the accessor's default Hs")
    elif good:
        rep.fail("R-C08-3", fi.file, sc.lineno, fi.qualname, unparse(ratio[0]),
                 "the factor must be built from the SAME significant height the accessor reports (hs() with default arguments): with "
                 "another variant (e.g. tail=False) the regridded spectrum's reported Hs differs from the source's whenever the tail term applies")
    else:
        rep.fail("R-C08-3", fi.file, sc.lineno, fi.qualname, unparse(sc)[:140], "variance conservation must scale by hs(source)**2 / hs(result)**2")
    mul = [n for n in ast.walk(sc) if isinstance(n, ast.Assign) and unparse(n.targets[0]) == "dsout" and isinstance(n.value, ast.BinOp) and isinstance(n.value.op, ast.Mult)]
    if not mul:
        rep.fail("R-C08-3", fi.file, sc.lineno, fi.qualname, unparse(sc)[:120], "the factor is not applied to the result")
    # nothing changes values afterwards
    after = fi.node.body[fi.node.body.index(sc) + 1:]
    for s in after:
        for n in ast.walk(s):
            if isinstance(n, ast.Assign) and unparse(n.targets[0]) == "dsout" or isinstance(n, ast.AugAssign) and unparse(n.target) == "dsout":
                rep.fail("R-C08-3", fi.file, n.lineno, fi.qualname, unparse(n)[:100], "the result's values are modified after the variance rescaling")
    guards = [unparse(x.test) for x in ast.walk(sc) if isinstance(x, ast.If) and x is not sc]
    if guards:
        rep.fail("R-C08-3", fi.file, sc.lineno, fi.qualname, "; ".join(guards), "the rescaling is conditional on a dataset-wide test")
    for q in (Q, "wavespectra.specarray.SpecArray.interp", "wavespectra.specarray.SpecArray.interp_like"):
        f2 = repo.func(q)
        a = f2.node.args
        pos = a.posonlyargs + a.args
        dflt = dict(zip([p.arg for p in pos[len(pos) - len(a.defaults):]], a.defaults))
        if mm0 in dflt and repo.const(f2.module, dflt[mm0]) is True:
            rep.ok("R-C08-3", f"{f2.file}:{f2.node.lineno} {f2.short}", f"{mm0}=True", "variance conservation on by default")
        else:
            rep.fail("R-C08-3", f2.file, f2.node.lineno, f2.qualname, f"default of {mm0}", "variance conservation must be the default")
    for q in ("wavespectra.specarray.SpecArray.interp", "wavespectra.specarray.SpecArray.interp_like"):
        f2 = repo.func(q)
        t = unparse(f2.node)
        if f"{mm0}={mm0}" not in t:
            rep.fail("R-C08-3", f2.file, f2.node.lineno, f2.qualname, "forwarding of maintain_m0", "the accessor must pass maintain_m0 through")
    # ---- rotate ---------------------------------------------------------------------------------------
    rt = repo.func("wavespectra.specarray.SpecArray.rotate")
    t = unparse(rt.node).replace(" ", "")
    ok = "self.dir.values+angle" in t and "%360" in t and "assign_coords" in t and "regrid_spec(dsout,dir=self.dir)" in t
    rets = [n for n in ast.walk(rt.node) if isinstance(n, ast.Return)]
    if ok and len(rets) == 1:
        rep.ok("R-C08-4", f"{rt.file}:{rt.node.lineno} rotate", "relabel (dir + angle) % 360, regrid onto self.dir", "single path for every angle")
    else:
        rep.fail("R-C08-4", rt.file, rt.node.lineno, rt.qualname, "rotate", "rotation must relabel directions by (dir + angle) % 360 and regrid onto the original directions on every path")
    # ---- R-C08-5 --------------------------------------------------------------------------------------
    n = 0
    for f2 in (fi, rt, repo.func("wavespectra.core.utils.unique_indices")):
        oa = OrderAnalysis(repo, f2, D)
        for kind, node, msg in oa.run():
            rep.fail("R-C08-5", f2.file, node.lineno, f2.qualname, unparse(node)[:120], msg)
        n += oa.checked
    rep.ok("R-C08-5", "regrid_spec / rotate", f"{n} order-sensitive operations", "positional ops only on the object sorted here")
    rep.trust("Python ast; xarray interp(kwargs=fill_value) semantics")
    rep.note("not decided (numeric properties of linear interpolation): identity on identical grids, non-negativity, exact Hs, "
             "whole-bin rotation equals a circular shift")
    return ("Static structural rules over regrid_spec / rotate: legal (guard sense, end index, relabel sign, side) tuples of the seam "
            "padding with order-insensitive guards, CFG order of the direction normalisation steps, zero fill and zero anchor of the "
            "frequency interpolation, the variance-rescaling factor (which Hs, which objects), its being last and unconditional, "
            "defaults and forwarding of maintain_m0, and order provenance.")
