"""Typing context (units / homogeneity / dims) for SpecArray methods and the helper functions they call."""
import ast
from fractions import Fraction as Fr

from .model import UNKNOWN, FuncInfo, call_name, kwarg, unparse
from .report import AnalysisError
from .units import Q, UEval, lit, parse_units

G_LITERALS = {
    # literal -> (unit, meaning) valid in the listed functions only
    1.56: ({"m": 1, "s": -2}, "g / (2 pi) in deep-water dispersion", {"celerity", "wavelen", "uss_x", "uss_y", "uss", "mss"}),
    0.10194: ({"m": -1, "s": 2}, "1 / g in the Chen-Thomson wavenumber", {"wavenuma"}),
}

# declared result types of the apply_ufunc wrappers (their numpy kernels are checked by other rules)
DECLARED = {
    "wavespectra.core.xrstats.peak_wave_period": Q({"s": 1}, Fr(0)),
    "wavespectra.core.xrstats.peak_wave_direction": Q({"deg": 1}, Fr(0), ang={"conv": "naut", "sense": "from", "mod": True, "coord": True}),
    "wavespectra.core.xrstats.mean_direction_at_peak_wave_period": Q({"deg": 1}, Fr(0), ang={"conv": "naut", "sense": "from", "mod": True}),
    "wavespectra.core.xrstats.peak_directional_spread": Q({"deg": 1}, Fr(0)),
    "wavespectra.core.xrstats.alpha": Q({}, Fr(1)),
}


class Typing:
    def __init__(self, repo, two_d=True):
        self.repo = repo
        self.two_d = two_d
        F, D = repo.attrs.FREQNAME, repo.attrs.DIRNAME
        self.F, self.D = F, D
        self.spectral = {F, D}
        self.coordnames = {F, D}
        self.memo = {}
        self.problems = []      # (FuncInfo, Problem)
        self.compares = []      # (FuncInfo, node, l, r, rnode)
        self.sa = repo.cls("wavespectra.specarray.SpecArray")
        self.stack = []

    # ---- seeds ------------------------------------------------------------------------------------
    def efth(self):
        dims = {self.F, self.D} if self.two_d else {self.F}
        u = {"m": 2, "s": 1, "deg": -1} if self.two_d else {"m": 2, "s": 1}
        return Q(u, Fr(1), dims)

    def coord(self, name):
        if name == self.F:
            return Q({"s": -1}, Fr(0), {self.F})
        if name == self.D:
            return Q({"deg": 1}, Fr(0), {self.D}, ang={"conv": "naut", "sense": "from", "mod": True, "coord": True}) if self.two_d else None
        return None

    def named_constant(self, mod, name, value):
        base = name.split(".")[-1]
        if base == "D2R" or abs(value - 0.017453292519943295) < 1e-15:
            return Q({"deg": -1})
        if base == "R2D" or abs(value - 57.29577951308232) < 1e-12:
            return Q({"deg": 1})
        if base == "g" and abs(value - 9.80665) < 1e-9:
            return Q({"m": 1, "s": -2})
        return None

    def dimensioned_literal(self, fi, value):
        ent = G_LITERALS.get(value)
        if ent and fi.name in ent[2]:
            return Q(ent[0])
        return None

    # ---- self.<attr> ----------------------------------------------------------------------------------
    def self_property(self, ev, attr, node):
        if attr == "_obj":
            return self.efth()
        if attr == "freq":
            return self.coord(self.F)
        if attr == "dir":
            return self.coord(self.D)
        if attr == "df":
            return Q({"s": -1}, Fr(0), {self.F})
        if attr == "dd":
            return Q({"deg": 1}, Fr(0)) if self.two_d else lit()
        if attr == "_spec_dims":
            return None
        return NotImplemented

    def self_call(self, ev, name, call, args):
        if name in ("_get_cf_attributes", "_my_name", "_standard_name", "_units"):
            return None
        fi = self.sa.methods.get(name)
        if fi is None:
            return NotImplemented
        return self.eval_method(fi, call, args, ev)

    def _const_args(self, ev, fi, call, skip_self):
        params = fi.params[1:] if skip_self else fi.params
        consts = {}
        a = fi.node.args
        pos = a.posonlyargs + a.args
        dflt = dict(zip([p.arg for p in pos[len(pos) - len(a.defaults):]], a.defaults))
        for p, d in dflt.items():
            v = self.repo.const(fi.module, d)
            if v is not UNKNOWN and not isinstance(v, (dict, list)):
                consts[p] = v
        for i, arg in enumerate(call.args):
            if i < len(params):
                v = ev.const(arg)
                if v is not UNKNOWN and not isinstance(v, (dict, list)):
                    consts[params[i]] = v
                else:
                    consts.pop(params[i], None)
        for k in call.keywords:
            if k.arg in params:
                v = ev.const(k.value)
                if v is not UNKNOWN and not isinstance(v, (dict, list)):
                    consts[k.arg] = v
                else:
                    consts.pop(k.arg, None)
        return consts

    def eval_method(self, fi, call, args, ev, consts=None):
        if consts is None:
            consts = self._const_args(ev, fi, call, True) if call is not None else self._defaults(fi)
        key = (fi.qualname, tuple(sorted((k, repr(v)) for k, v in consts.items())), self.two_d)
        if key in self.memo:
            return self.memo[key]
        if key in self.stack:
            return None
        self.stack.append(key)
        seeds = {}
        params = fi.params[1:]
        if call is not None:
            for i, a in enumerate(args):
                if i < len(params) and params[i] not in consts:
                    seeds[params[i]] = a
            for k in call.keywords:
                if k.arg in params and k.arg not in consts:
                    seeds[k.arg] = ev.ev(k.value)
        for p in params:
            if p in ("depth", "water_depth", "dpt") and p not in consts and p not in seeds:
                seeds[p] = Q({"m": 1})
        sub = _SpecEval(self.repo, fi, seeds, consts, self, depth=(ev.depth + 1 if ev else 0))
        sub.run()
        for p in sub.problems:
            self.problems.append((fi, p))
        for c in sub.compares:
            self.compares.append((fi,) + c)
        res = None
        for node, v in sub.returns:
            res = v if res is None else (res if _same(res, v) else sub.join(res, v, node))
        self.stack.pop()
        self.memo[key] = res
        return res

    def _defaults(self, fi):
        a = fi.node.args
        pos = a.posonlyargs + a.args
        consts = {}
        for p, d in zip([p.arg for p in pos[len(pos) - len(a.defaults):]], a.defaults):
            v = self.repo.const(fi.module, d)
            if v is not UNKNOWN and not isinstance(v, (dict, list)):
                consts[p] = v
        return consts

    def call_function(self, ev, fi, call, args):
        if fi.qualname in DECLARED:
            return DECLARED[fi.qualname]
        if fi.cls is not None:
            return None
        consts = self._const_args(ev, fi, call, False)
        key = (fi.qualname, tuple(repr(a) for a in args), tuple(sorted((k, repr(v)) for k, v in consts.items())), tuple(sorted((k.arg or "", repr(ev.ev(k.value))) for k in call.keywords)))
        if key in self.memo:
            return self.memo[key]
        if key in self.stack or len(self.stack) > 12:
            return None
        self.stack.append(key)
        seeds = {}
        for i, a in enumerate(args):
            if i < len(fi.params) and fi.params[i] not in consts:
                seeds[fi.params[i]] = a
        for k in call.keywords:
            if k.arg in fi.params and k.arg not in consts:
                seeds[k.arg] = ev.ev(k.value)
        sub = _SpecEval(self.repo, fi, seeds, consts, self, depth=ev.depth + 1)
        sub.run()
        for p in sub.problems:
            self.problems.append((fi, p))
        for c in sub.compares:
            self.compares.append((fi,) + c)
        res = None
        for node, v in sub.returns:
            res = v if res is None else (res if _same(res, v) else sub.join(res, v, node))
        self.stack.pop()
        self.memo[key] = res
        return res


def _same(a, b):
    return repr(a) == repr(b)


class _SpecEval(UEval):
    """UEval that decides the 1-D / 2-D branch (`self.dir is None`) from the typing mode."""

    def __init__(self, repo, fi, seeds, consts, table, depth=0):
        super().__init__(repo, fi, seeds, consts, table, depth)

    def stmt(self, s):
        if isinstance(s, ast.If):
            t = unparse(s.test).replace(" ", "")
            if t in ("self.dirisNone", "self.dirisnotNone", "attrs.DIRNAMEinself._obj.dims"):
                truth = (t != "self.dirisNone") == self.table.two_d
                self.block(s.body if truth else s.orelse)
                return
        return super().stmt(s)
