"""Array-bounds obligations for specpart.c: a small symbolic range analysis over the clang AST.

Every array access A[idx] / *(A + idx) is an obligation 0 <= idx <= extent(A)-1.  Extents come from
the malloc sizes; index ranges are symbolic intervals [lo, hi] whose ends are polynomials in the grid
extents mk, mth (nspec == mk*mth) and ihmax, computed from *all* assignments to the variables involved
(flow-insensitive join), refined by the conditions that dominate the use (enclosing if/else branches,
preceding `if (c) break;`), by counted-loop headers, by the ranges of values stored into the arrays that
are later loaded as indices, and by interprocedural parameter / return ranges.  Nothing is executed.
"""
from .cast import Poly, ex, poly_of, show, strip
from .report import AnalysisError

MK, MTH, IH = Poly.var("mk"), Poly.var("mth"), Poly.var("ihmax")
NSPEC = MK * MTH
ZERO, ONE = Poly.const(0), Poly.const(1)


def nonneg(p):
    """Sufficient test for p >= 0 when every symbol is >= 1."""
    if p is None:
        return False
    s = 0
    for k, v in p.t.items():
        if k != () and v < 0:
            # allow a negative monomial dominated by a positive multiple of it (e.g. mk*mth - mk >= 0)
            if not any(set(k) <= set(k2) and len(k2) > len(k) and v2 >= -v for k2, v2 in p.t.items()):
                return False
            continue
        s += v
    # recompute conservatively: value at all symbols == 1 is a lower bound only if non-constant coefs >= 0;
    # with dominated negatives, pair them off
    tot = 0
    neg = {k: v for k, v in p.t.items() if k != () and v < 0}
    pos = {k: v for k, v in p.t.items() if k != () and v > 0}
    for k, v in neg.items():
        for k2 in list(pos):
            if set(k) <= set(k2) and len(k2) > len(k) and pos[k2] >= -v:
                pos[k2] += v      # k2 >= k since extra symbols >= 1
                v = 0
                break
        if v:
            return False
    tot = p.t.get((), 0) + sum(pos.values())
    return tot >= 0


def le(a, b):
    return a is not None and b is not None and nonneg(b - a)


class Rng:
    __slots__ = ("lo", "hi", "extra")

    def __init__(self, lo=None, hi=None, extra=frozenset()):
        self.lo, self.hi, self.extra = lo, hi, frozenset(extra)

    @staticmethod
    def const(c):
        return Rng(Poly.const(c), Poly.const(c))

    @staticmethod
    def exact(p):
        return Rng(p, p)

    def is_bottom(self):
        return self.lo == "bot"

    def __repr__(self):
        e = f" U{sorted(self.extra)}" if self.extra else ""
        return f"[{self.lo}, {self.hi}]{e}"


BOT = Rng("bot", "bot")
TOPR = Rng(None, None)


def pmin(a, b):
    if a is None or b is None:
        return None
    if le(a, b):
        return a
    if le(b, a):
        return b
    return None


def pmax(a, b):
    if a is None or b is None:
        return None
    if le(a, b):
        return b
    if le(b, a):
        return a
    return None


def join(a, b):
    if a.is_bottom():
        return b
    if b.is_bottom():
        return a
    # keep isolated negative constants (sentinels) apart from the interval
    def split(r):
        if r.lo is not None and r.lo == r.hi and r.lo.is_const() and r.lo.const_value() < 0:
            return None, r.extra | {r.lo.const_value()}
        return r, r.extra
    ra, ea = split(a)
    rb, eb = split(b)
    ex_ = ea | eb
    if ra is None and rb is None:
        vals = sorted(ex_)
        return Rng(Poly.const(vals[0]), Poly.const(vals[-1]))
    if ra is None:
        return Rng(rb.lo, rb.hi, ex_)
    if rb is None:
        return Rng(ra.lo, ra.hi, ex_)
    return Rng(pmin(ra.lo, rb.lo), pmax(ra.hi, rb.hi), ex_)


def add(a, b):
    if a.is_bottom() or b.is_bottom():
        return BOT
    if a.extra or b.extra:
        return TOPR
    return Rng(a.lo + b.lo if a.lo is not None and b.lo is not None else None,
               a.hi + b.hi if a.hi is not None and b.hi is not None else None)


def neg(a):
    if a.is_bottom():
        return BOT
    if a.extra:
        return TOPR
    return Rng(-a.hi if a.hi is not None else None, -a.lo if a.lo is not None else None)


def mul(a, b):
    if a.is_bottom() or b.is_bottom():
        return BOT
    if a.extra or b.extra:
        return TOPR
    if a.lo is not None and b.lo is not None and nonneg(a.lo) and nonneg(b.lo):
        return Rng(a.lo * b.lo, a.hi * b.hi if a.hi is not None and b.hi is not None else None)
    # constant factor
    for x, y in ((a, b), (b, a)):
        if x.lo is not None and x.lo == x.hi and x.lo.is_const():
            c = x.lo.const_value()
            if c >= 0:
                return Rng(y.lo * x.lo if y.lo is not None else None, y.hi * x.lo if y.hi is not None else None)
            return neg(mul(Rng.const(-c), y))
    return TOPR


class Analyzer:
    def __init__(self, cf, neigh_ok):
        self.cf = cf
        self.neigh_ok = neigh_ok           # R-C04-1 established: neighbour slots hold cells, slot 8 holds a count <= 8
        self.globals = {g["name"] for g in cf.globals}
        self.assumptions = []
        self._memo = {}
        self._stack = set()
        self.solving = False
        self.table = {}
        self.sym = {}                      # (func, param) -> Poly, for parameters that always receive a symbol
        self.arr_bind = {}                 # (func, param) -> set of (func, arrayname) it may denote
        self.ptr_bind = {}                 # (func, param) -> (func, var) for `&var` actuals
        self.assigns = {}                  # (func|None, var) -> list of (node, kind, payload)
        self.stores = {}                   # (func|None, array) -> list of (node, idx tree, rhs tree, func)
        self.extent = {}                   # (func|None, array) -> Poly
        self.calls = {}                    # callee -> list of (caller, node, args)
        self.locals = {}
        self._index()
        self.solve()

    # ---- indexing -----------------------------------------------------------------------------
    def key(self, fn, name):
        if name in self.locals.get(fn, ()):  # locals and params shadow globals
            return (fn, name)
        if name in self.globals:
            return (None, name)
        return (fn, name)

    def _index(self):
        cf = self.cf
        for fn, node in cf.funcs.items():
            loc = set(cf.params(fn))
            for n in cf.walk(node):
                if n.get("kind") == "VarDecl":
                    loc.add(n["name"])
            self.locals[fn] = loc
        for fn, node in cf.funcs.items():
            for n in cf.walk(node):
                k = n.get("kind")
                if k == "CallExpr":
                    t = ex(n)
                    callee = show(t[1])
                    if callee in cf.funcs:
                        self.calls.setdefault(callee, []).append((fn, n, t[2]))
                if k == "VarDecl" and n.get("inner"):
                    init = [c for c in n["inner"] if isinstance(c, dict) and c.get("kind") not in (None,)]
                    if init:
                        self._assign(fn, ("var", n["name"]), ex(init[-1]), n)
                if k in ("BinaryOperator", "CompoundAssignOperator") and n.get("opcode", "").endswith("=") \
                        and n["opcode"] not in ("==", "!=", "<=", ">="):
                    lhs, rhs = ex(n["inner"][0]), ex(n["inner"][1])
                    if n["opcode"] != "=":
                        rhs = ("bin", n["opcode"][:-1], lhs, rhs)
                    self._assign(fn, lhs, rhs, n)
                if k == "UnaryOperator" and n.get("opcode") in ("++", "--"):
                    lhs = ex(n["inner"][0])
                    self._assign(fn, lhs, ("bin", "+" if n["opcode"] == "++" else "-", lhs, ("int", 1)), n)
        # parameter bindings
        for callee, sites in self.calls.items():
            params = cf.params(callee)
            for i, p in enumerate(params):
                syms, arrs, ptrs = [], set(), set()
                for caller, node, args in sites:
                    if i >= len(args):
                        continue
                    a = args[i]
                    if a[0] == "un" and a[1] == "&" and a[2][0] == "var":
                        ptrs.add(self.key(caller, a[2][1]))
                    elif a[0] == "var":
                        arrs.add(self.key(caller, a[1]))
                        syms.append(self.sympoly(caller, a))
                    else:
                        syms.append(self.sympoly(caller, a))
                if len(ptrs) == 1 and not arrs:
                    self.ptr_bind[(callee, p)] = next(iter(ptrs))
                if arrs:
                    self.arr_bind[(callee, p)] = arrs
                if syms and all(s is not None for s in syms) and len({repr(s) for s in syms}) == 1:
                    self.sym[(callee, p)] = syms[0]

    def _assign(self, fn, lhs, rhs, node):
        if lhs[0] == "var":
            self.assigns.setdefault(self.key(fn, lhs[1]), []).append((node, rhs, fn))
            # extent from malloc
            m = rhs
            if m[0] == "call" and show(m[1]) == "malloc" and m[2]:
                size = m[2][0]
                e = None
                if size[0] == "bin" and size[1] == "*":
                    for a, b in ((size[2], size[3]), (size[3], size[2])):
                        if b[0] == "sizeof":
                            e = a
                if e is None:
                    raise AnalysisError(f"malloc size not of the form n*sizeof(T): {show(size)}")
                self.extent.setdefault(self.key(fn, lhs[1]), []).append((e, fn, node))
        elif lhs[0] == "idx" and lhs[1][0] == "var":
            self.stores.setdefault(self.key(fn, lhs[1][1]), []).append((node, lhs[2], rhs, fn))
        elif lhs[0] == "un" and lhs[1] == "*":
            inner = lhs[2]
            if inner[0] == "var":        # *p = v   (pointer parameter bound to &var)
                self.assigns.setdefault(("deref", fn, inner[1]), []).append((node, rhs, fn))
            elif inner[0] == "bin" and inner[1] == "+" and inner[2][0] == "var":
                self.stores.setdefault(self.key(fn, inner[2][1]), []).append((node, inner[3], rhs, fn))

    # ---- symbols ------------------------------------------------------------------------------
    def sympoly(self, fn, t):
        """Polynomial over {mk, mth, ihmax} if the tree is built from symbols only."""
        env = {}

        def conv(t):
            if t[0] == "int":
                return Poly.const(t[1])
            if t[0] == "var":
                n = t[1]
                k = self.key(fn, n)
                if k == (None, "nspec"):
                    return NSPEC
                if k == (None, "mk"):
                    return MK
                if k == (None, "mth"):
                    return MTH
                if (fn, n) in self.sym:
                    return self.sym[(fn, n)]
                if fn == "partition" and n in self.cf.params("partition"):
                    ps = self.cf.params("partition")
                    if n == ps[2]:
                        return MK        # guarded: partition() exits unless nk == mk && nth == mth
                    if n == ps[3]:
                        return MTH
                    if n == ps[4]:
                        return IH
                if fn in ("partinit",) and n in self.cf.params("partinit"):
                    return MK if n == self.cf.params("partinit")[0] else MTH
                return None
            if t[0] == "bin" and t[1] in "+-*":
                a, b = conv(t[2]), conv(t[3])
                if a is None or b is None:
                    return None
                return a + b if t[1] == "+" else (a - b if t[1] == "-" else a * b)
            if t[0] == "float" and float(t[1]).is_integer():
                return Poly.const(int(t[1]))
            return None
        return conv(t)

    # ---- extents ------------------------------------------------------------------------------
    def extent_of(self, fn, name, seen=()):
        k = self.key(fn, name)
        if k in self.extent:
            ps = []
            for e, efn, node in self.extent[k]:
                p = self.sympoly(efn, e)
                if p is None:
                    return None
                ps.append(p)
            if len({repr(p) for p in ps}) != 1:
                # two allocations with different sizes: take the smaller if comparable
                m = ps[0]
                for p in ps[1:]:
                    m = pmin(m, p)
                return m
            return ps[0]
        if (fn, name) in self.arr_bind and (fn, name) not in seen:
            ext = None
            for (f2, n2) in self.arr_bind[(fn, name)]:
                e = self.extent_of(f2, n2, seen + ((fn, name),))
                if e is None:
                    return None
                ext = e if ext is None else pmin(ext, e)
            return ext
        if fn == "partition" and name in self.cf.params("partition")[:2]:
            return NSPEC          # precondition R-C20-6: caller passes (nk, nth) arrays
        return None

    def arrays_of(self, fn, name, seen=()):
        """Concrete arrays a name may denote (through parameter binding)."""
        k = self.key(fn, name)
        if k in self.extent or k[0] is None:
            return {k}
        if (fn, name) in self.arr_bind and (fn, name) not in seen:
            out = set()
            for (f2, n2) in self.arr_bind[(fn, name)]:
                out |= self.arrays_of(f2 if f2 else "partition", n2, seen + ((fn, name),)) if f2 else {(None, n2)}
            return out
        return {k}

    # ---- dominating conditions -------------------------------------------------------------------
    def _always_exits_or_assigns(self, s, var, fn):
        """Every path through statement s leaves the enclosing block/loop or assigns `var`."""
        k = s.get("kind")
        if k in ("BreakStmt", "ReturnStmt", "ContinueStmt"):
            return True
        if k == "CompoundStmt":
            return any(self._always_exits_or_assigns(c, var, fn) for c in s.get("inner", []) if isinstance(c, dict))
        if k == "IfStmt":
            inner = s["inner"]
            return len(inner) > 2 and self._always_exits_or_assigns(inner[1], var, fn) and \
                self._always_exits_or_assigns(inner[2], var, fn)
        if var is not None and k in ("BinaryOperator", "CompoundAssignOperator") and s.get("opcode") == "=":
            return ex(s["inner"][0]) == var
        return False

    def facts_at(self, node, var=None, fn=None):
        """List of (cond tree, truth) known to hold when control reaches `node`."""
        facts = []
        child, p = node, node.get("_p")
        while p is not None and p.get("kind") != "FunctionDecl":
            k = p.get("kind")
            if k == "IfStmt":
                inner = p["inner"]
                if len(inner) > 1 and inner[1] is child:
                    facts.append((ex(inner[0]), True, inner[0]))
                elif len(inner) > 2 and inner[2] is child:
                    facts.append((ex(inner[0]), False, inner[0]))
            if k == "CompoundStmt":
                for s in p["inner"]:
                    if s is child:
                        break
                    if isinstance(s, dict) and s.get("kind") == "IfStmt" and len(s["inner"]) == 2:
                        body = s["inner"][1]
                        bs = body["inner"] if body.get("kind") == "CompoundStmt" else [body]
                        if bs and bs[-1].get("kind") in ("BreakStmt", "ReturnStmt", "ContinueStmt"):
                            facts.append((ex(s["inner"][0]), False, s["inner"][0]))
                        elif var is not None and self._always_exits_or_assigns(body, var, fn):
                            facts.append((ex(s["inner"][0]), False, s["inner"][0]))
            if k == "ForStmt":
                inner = p["inner"]
                if inner[4] is child and inner[2] and inner[2].get("kind"):
                    facts.append((ex(inner[2]), True, inner[2]))
            if k == "WhileStmt":
                inner = p["inner"]
                if len(inner) == 2 and inner[1] is child and inner[0].get("kind"):
                    facts.append((ex(inner[0]), True, inner[0]))
            child, p = p, p.get("_p")
        return facts

    def _reassigned_between(self, fn, var_tree, cond_node, use_node):
        """Is the variable assigned at a source position between the condition and the use?"""
        lo, hi = self.cf.pe(cond_node), self.cf.pb(use_node)
        if lo is None or hi is None:
            return True
        key = self._varkey(fn, var_tree)
        for node, rhs, f in self.assigns.get(key, []):
            o = self.cf.pb(node)
            if o is not None and lo < o < hi:
                return True
        return False

    def _varkey(self, fn, t):
        if t[0] == "var":
            return self.key(fn, t[1])
        if t[0] == "un" and t[1] == "*" and t[2][0] == "var":
            return ("deref", fn, t[2][1])
        return None

    def refine(self, fn, t, r, node, after=None):
        """Tighten range r of variable-tree t using conditions dominating node.  With `after` (a source offset of
        the assignment that produced r) only conditions evaluated after that assignment are used, and other
        assignments are ignored (their values are separate contributions)."""
        if r.is_bottom():
            return r
        rk = ("refine", fn, repr(t), id(node))
        if rk in self._stack or len([x for x in self._stack if x[0] == "refine"]) > 6:
            return r
        self._stack.add(rk)
        try:
            return self._refine(fn, t, r, node, after)
        finally:
            self._stack.discard(rk)

    def _refine(self, fn, t, r, node, after=None):
        for cond, truth, cnode in self.facts_at(node, var=t, fn=fn):
            for c, tr in self._atoms(cond, truth):
                if c[0] != "bin" or c[1] not in ("<", "<=", ">", ">=", "==", "!="):
                    continue
                a, b, op = c[2], c[3], c[1]
                if b == t and a != t:
                    a, b = b, a
                    op = {"<": ">", "<=": ">=", ">": "<", ">=": "<=", "==": "==", "!=": "!="}[op]
                if a != t:
                    continue
                if after is None:
                    if self._reassigned_between(fn, t, cnode, node):
                        continue
                else:
                    co = self.cf.pb(cnode)
                    if co is None or co <= after:
                        continue
                if not tr:
                    op = {"<": ">=", "<=": ">", ">": "<=", ">=": "<", "==": "!=", "!=": "=="}[op]
                br = self.rng(fn, b, node)
                if br.is_bottom():
                    continue
                if br.extra:
                    if op == "!=" and br.lo is not None and br.lo == br.hi and br.lo.is_const():
                        pass
                    else:
                        continue
                if op == "<" and br.hi is not None:
                    r = Rng(r.lo, pmin_keep(r.hi, br.hi - ONE), r.extra)
                elif op == "<=" and br.hi is not None:
                    r = Rng(r.lo, pmin_keep(r.hi, br.hi), r.extra)
                elif op == ">" and br.lo is not None:
                    r = Rng(pmax_keep(r.lo, br.lo + ONE), r.hi, frozenset(x for x in r.extra if not br.lo.is_const() or x > br.lo.const_value()))
                elif op == ">=" and br.lo is not None:
                    r = Rng(pmax_keep(r.lo, br.lo), r.hi, frozenset(x for x in r.extra if not br.lo.is_const() or x >= br.lo.const_value()))
                elif op == "==" and br.lo is not None and br.lo == br.hi:
                    r = Rng(br.lo, br.hi)
                elif op == "!=" and br.lo is not None and br.lo == br.hi and br.lo.is_const():
                    r = Rng(r.lo, r.hi, r.extra - {br.lo.const_value()})
        return r

    def _atoms(self, cond, truth):
        if cond[0] == "bin" and cond[1] == "&&" and truth:
            return self._atoms(cond[2], True) + self._atoms(cond[3], True)
        if cond[0] == "bin" and cond[1] == "||" and not truth:
            return self._atoms(cond[2], False) + self._atoms(cond[3], False)
        if cond[0] == "un" and cond[1] == "!":
            return self._atoms(cond[2], not truth)
        return [(cond, truth)]

    # ---- ranges -------------------------------------------------------------------------------
    # Phase 1: a table of flow-insensitive ranges (variables, array contents, function returns) solved by
    # round-robin iteration with widening and narrowing.  Phase 2 (precise=True): at a use site, the variables of
    # the index expression are evaluated from the assignments that can reach the use, each contribution refined by
    # the conditions evaluated between that assignment and the use.

    def solve(self):
        self.table = {}
        self.solving = True
        for k in [("var", k) for k in self.assigns] + [("ret", f) for f in self.cf.funcs] + \
                 [("content", k) for k in self.stores]:
            self.table.setdefault(k, BOT)
        for rnd in range(14):
            changed = False
            for k in list(self.table.keys()):
                new = self._equation(k)
                old = self.table.get(k, BOT)
                if not old.is_bottom():
                    new = join(old, new)
                    if rnd >= 4 and not new.is_bottom():
                        lo = new.lo if repr(new.lo) == repr(old.lo) else None
                        hi = new.hi if repr(new.hi) == repr(old.hi) else None
                        new = Rng(lo, hi, new.extra)
                if repr(new) != repr(old):
                    self.table[k] = new
                    changed = True
            if not changed:
                break
        for _ in range(3):       # narrowing: F(post-fixpoint) is still a post-fixpoint
            for k in list(self.table.keys()):
                new = self._equation(k)
                if not new.is_bottom():
                    self.table[k] = new
        self.solving = False

    def _copy_root(self, key, depth=0):
        """Follow variables whose every assignment is a plain copy of one other variable."""
        if depth > 5 or key is None or key[0] in (None, "deref"):
            return key
        items = self.assigns.get(key, [])
        if not items or key[1] in self.cf.params(key[0]):
            return key
        src = set()
        for anode, rhs, afn in items:
            if rhs[0] != "var":
                return key
            src.add(self.key(afn, rhs[1]))
        if len(src) != 1:
            return key
        nxt = next(iter(src))
        if nxt == key:
            return key
        return self._copy_root(nxt, depth + 1)

    def _lookup(self, k):
        if k not in self.table:
            self.table[k] = BOT
            if not self.solving:
                self.solving = True
                try:
                    for _ in range(6):
                        self.table[k] = join(self.table[k], self._equation(k))
                finally:
                    self.solving = False
        return self.table[k]

    def _equation(self, k):
        kind = k[0]
        if kind == "var":
            key = k[1]
            items, actuals = self._contributions(None, key)
            out = BOT
            for anode, rhs, afn in items:
                if rhs[0] == "var" and self._copy_root(self.key(afn, rhs[1])) == self._copy_root(key):
                    continue          # x = y where y is only ever a copy of x: contributes nothing new
                out = join(out, self.assigned_value(afn, anode, rhs, None))
            for caller, cnode, arg in actuals:
                out = join(out, self.rng(caller, arg, cnode))
            return out
        if kind == "ret":
            out = BOT
            for n in self.cf.walk(self.cf.func(k[1])):
                if n.get("kind") == "ReturnStmt" and n.get("inner"):
                    out = join(out, self.rng(k[1], ex(n["inner"][0]), n))
            return out
        if kind == "content":
            arr = k[1]
            sts = list(self.stores.get(arr, []))
            for (callee, p), arrs in self.arr_bind.items():
                if arr in arrs:
                    sts += self.stores.get((callee, p), [])
            out = BOT
            for snode, sidx, rhs, sfn in sts:
                out = join(out, self.rng(sfn, rhs, snode))
            return out
        return TOPR

    def loop_range(self, fn, name, node):
        """If `name` is the induction variable of a counted loop enclosing node (and not assigned in its body)."""
        from .rules.cnative import counted_loop, body_assigns_var
        p = node.get("_p")
        while p is not None and p.get("kind") != "FunctionDecl":
            if p.get("kind") == "ForStmt":
                cl = counted_loop(self.cf, p)
                if cl is not None and cl[0] == name and not body_assigns_var(self.cf, p, name):
                    lo = self.rng(fn, cl[1], p)
                    hi = self.rng(fn, cl[2], p)
                    if lo.is_bottom() or hi.is_bottom():
                        return TOPR
                    h = hi.hi - ONE if (hi.hi is not None and cl[3]) else hi.hi
                    return Rng(lo.lo, h)
            p = p.get("_p")
        return None

    def var_range(self, fn, t, node, precise=False):
        key = self._varkey(fn, t)
        if key is None:
            return TOPR
        if t[0] == "var":
            sp = self.sympoly(fn, t)
            if sp is not None:
                return Rng.exact(sp)
            lr = self.loop_range(fn, t[1], node)
            if lr is not None:
                return self.refine(fn, t, lr, node)
        if precise:
            items, actuals = self._contributions(fn, key)
            reach = self._reaching(fn, key, items, node)
            if reach is not None:
                out = BOT
                u_off = self.cf.pb(node)
                for anode, rhs, afn in reach:
                    c = self.assigned_value(afn, anode, rhs, None)
                    if afn == fn and not c.is_bottom():
                        a_off = self.cf.pb(anode)
                        if a_off is not None and u_off is not None and a_off < u_off:
                            c = self.refine(fn, t, c, node, after=a_off)
                    out = join(out, c)
                return out
        base = self._lookup(("var", key))
        return self.refine(fn, t, base, node)

    def _contributions(self, fn, key):
        items = list(self.assigns.get(key, []))
        actuals = []
        if key[0] == "deref":
            bound = self.ptr_bind.get((key[1], key[2]))
            if bound is not None:
                items += self.assigns.get(bound, [])
        else:
            for (callee, p), b in self.ptr_bind.items():
                if b == key:
                    items += self.assigns.get(("deref", callee, p), [])
            if key[0] is not None and key[1] in self.cf.params(key[0]) and (key[0], key[1]) not in self.ptr_bind:
                i = self.cf.params(key[0]).index(key[1])
                for caller, cnode, args in self.calls.get(key[0], []):
                    if i < len(args):
                        actuals.append((caller, cnode, args[i]))
        return items, actuals

    def _reaching(self, fn, key, items, node):
        """Assignments that may reach `node`: the last unconditional assignment D in an enclosing block before the
        use kills everything earlier; what remains is D, the assignments located between D and the use, and every
        assignment inside a loop that encloses the use but not D (back edges).  None = no such D."""
        if key[0] in (None, "deref") or node is None:
            return None
        mine = {id(a[0]): a for a in items if a[2] == fn}
        if not mine:
            return None
        use_off = self.cf.pb(node)
        child, p = node, node.get("_p")
        while p is not None and p.get("kind") != "FunctionDecl":
            if p.get("kind") == "CompoundStmt":
                best = None
                for s in p["inner"]:
                    if s is child:
                        break
                    a = self._stmt_assign(s, mine)
                    if a is not None:
                        best = a
                if best is not None:
                    d_off = self.cf.pb(best[0])
                    out = [best]
                    loops = []
                    q = node.get("_p")
                    while q is not None and q is not p:
                        if q.get("kind") in ("ForStmt", "WhileStmt", "DoStmt"):
                            loops.append(q)
                        q = q.get("_p")
                    for a in items:
                        o = self.cf.pb(a[0])
                        if a is best:
                            continue
                        if a[2] != fn:
                            out.append(a)
                        elif o is not None and d_off < o < use_off:
                            out.append(a)
                        elif any(self._contains(l, a[0]) for l in loops):
                            out.append(a)
                    return out
            child, p = p, p.get("_p")
        return None

    @staticmethod
    def _contains(anc, n):
        while n is not None:
            if n is anc:
                return True
            n = n.get("_p")
        return False

    def _stmt_assign(self, s, mine):
        n = s
        while n.get("kind") in ("ParenExpr", "ImplicitCastExpr"):
            n = n["inner"][0]
        if id(n) in mine:
            return mine[id(n)]
        if n.get("kind") == "DeclStmt":
            for c in n.get("inner", []):
                if id(c) in mine:
                    return mine[id(c)]
        return None

    def assigned_value(self, fn, anode, rhs, lhs_tree):
        """Range contributed by one assignment, recognising the wrap-around increment idiom."""
        lhs = ex(anode["inner"][0]) if anode.get("kind") in ("BinaryOperator", "CompoundAssignOperator", "UnaryOperator") else None
        stmt = anode
        while stmt.get("_p") is not None and stmt["_p"].get("kind") not in ("CompoundStmt",):
            stmt = stmt["_p"]
        par = stmt.get("_p")
        if lhs is not None and par is not None and rhs[0] == "bin" and rhs[1] == "+" and rhs[2] == lhs and rhs[3] == ("int", 1):
            sib = par["inner"]
            i = next((j for j, s in enumerate(sib) if s is stmt), None)
            if i is not None and i + 1 < len(sib) and sib[i + 1].get("kind") == "IfStmt":
                nxt = sib[i + 1]
                c = ex(nxt["inner"][0])
                body = nxt["inner"][1]
                bs = body["inner"] if body.get("kind") == "CompoundStmt" else [body]
                if c[0] == "bin" and c[1] in (">", ">=") and c[2] == lhs and len(bs) == 1 and len(nxt["inner"]) == 2:
                    b0 = ex(bs[0])
                    if b0[0] == "bin" and b0[1] == "=" and b0[2] == lhs and b0[3] == ("int", 0):
                        k = self.rng(fn, c[3], nxt)
                        if not k.is_bottom() and k.hi is not None:
                            return Rng(ZERO, k.hi if c[1] == ">" else k.hi - ONE)
        return self.rng(fn, rhs, anode)

    def content(self, fn, name, idx_tree, node):
        """Range of the values held by array `name` (join of everything ever stored into it)."""
        out = BOT
        for k in self.arrays_of(fn, name):
            if k == (None, "neigh"):
                if not self.neigh_ok:
                    return TOPR
                slot = self._neigh_slot(fn, idx_tree, node)
                if slot == "count":
                    return Rng(ZERO, Poly.const(8))
                if slot == "cell":
                    return Rng(ZERO, NSPEC - ONE)
                return TOPR
            has = bool(self.stores.get(k)) or any(k in arrs and self.stores.get((c, p)) for (c, p), arrs in self.arr_bind.items())
            if not has:
                return TOPR
            out = join(out, self._lookup(("content", k)))
        return out

    def _neigh_slot(self, fn, idx_tree, node):
        """Classify neigh[e + 9*p]: 'cell' (e in 0..7), 'count' (e == 8)."""
        t = idx_tree
        if t[0] == "bin" and t[1] == "+":
            for a, b in ((t[2], t[3]), (t[3], t[2])):
                if b[0] == "bin" and b[1] == "*" and (b[2] == ("int", 9) or b[3] == ("int", 9)):
                    r = self.rng(fn, a, node)
                    if not r.is_bottom() and r.lo is not None and r.hi is not None and not r.extra:
                        if r.lo == Poly.const(8) and r.hi == Poly.const(8):
                            return "count"
                        if nonneg(r.lo) and le(r.hi, Poly.const(7)):
                            return "cell"
        return None

    def rng(self, fn, t, node, precise=False):
        k = t[0]
        if k == "int":
            return Rng.const(t[1])
        if k == "float":
            return Rng.const(int(t[1])) if float(t[1]).is_integer() else TOPR
        if k == "var":
            return self.var_range(fn, t, node, precise)
        if k == "un":
            if t[1] == "-":
                return neg(self.rng(fn, t[2], node, precise))
            if t[1] == "*" and t[2][0] == "var":
                return self.var_range(fn, t, node, precise)
            if t[1] == "*" and t[2][0] == "bin" and t[2][1] == "+" and t[2][2][0] == "var":
                return self.content(fn, t[2][2][1], t[2][3], node)
            if t[1] in ("++", "--", "++post", "--post"):
                return self.rng(fn, t[2], node, precise)
            return TOPR
        if k == "bin":
            op = t[1]
            if op == "=":
                return self.rng(fn, t[3], node, precise)
            a, b = self.rng(fn, t[2], node, precise), self.rng(fn, t[3], node, precise)
            if op == "+":
                return add(a, b)
            if op == "-":
                return add(a, neg(b))
            if op == "*":
                return mul(a, b)
            if a.is_bottom() or b.is_bottom():
                return BOT
            if op == "%":
                if b.lo is not None and b.hi is not None and nonneg(b.lo - ONE) and not b.extra:
                    return Rng(ZERO, b.hi - ONE)
                return TOPR
            if op == "/":
                if a.lo is not None and nonneg(a.lo) and b.lo is not None and nonneg(b.lo - ONE) and not a.extra and not b.extra:
                    return Rng(ZERO, a.hi)
                return TOPR
            return TOPR
        if k == "idx":
            if t[1][0] == "var":
                return self.content(fn, t[1][1], t[2], node)
            return TOPR
        if k == "call":
            name = show(t[1])
            args = t[2]
            if name in ("fmax", "fmaxf", "fmin", "fminf") and len(args) == 2:
                a, b = self.rng(fn, args[0], node), self.rng(fn, args[1], node)
                if a.is_bottom() or b.is_bottom():
                    return BOT
                if name.startswith("fmax"):
                    return Rng(_maxlo(a.lo, b.lo), pmax(a.hi, b.hi))
                return Rng(pmin(a.lo, b.lo), _minhi(a.hi, b.hi))
            if name in ("round", "floor", "ceil", "rint", "lround", "trunc") and args:
                return self.rng(fn, args[0], node)
            if name in ("abs", "fabs", "fabsf", "labs") and args:
                return Rng(ZERO, None)
            if name in self.cf.funcs:
                r = self._lookup(("ret", name))
                if name == "fifo_first":
                    r = self._fifo_pop(fn, r, node)
                return r
            return TOPR
        if k == "cond":
            return join(self.rng(fn, t[2], node), self.rng(fn, t[3], node))
        return TOPR

    def _fifo_pop(self, fn, r, node):
        """A pop dominated by a negative emptiness test (no other pop in between) yields a pixel, not the marker."""
        if r.is_bottom() or not r.extra:
            return r
        # the cursor whose address this pop receives:  fifo_first(iq, &iq_start)
        cursor = None

        def find(t):
            nonlocal cursor
            if not isinstance(t, tuple):
                return
            if t and t[0] == "call" and show(t[1]) == "fifo_first":
                for a_ in t[2]:
                    if isinstance(a_, tuple) and a_[0] == "un" and a_[1] == "&" and a_[2][0] == "var":
                        cursor = a_[2][1]
            for x in t:
                find(x)
        find(ex(node))
        for cond, truth, cnode in self.facts_at(node):
            for c, tr in self._atoms(cond, truth):
                inline_empty = c[0] == "bin" and c[1] in ("==", "!=") and c[2][0] == "var" and c[3][0] == "var" and cursor is not None and cursor in (c[2][1], c[3][1]) \
                    and ((c[1] == "==" and not tr) or (c[1] == "!=" and tr))
                if inline_empty:
                    # the other operand must be the write cursor: every assignment to it is 0 or a fifo_add result
                    other_v = c[3] if c[2][1] == cursor else c[2]
                    key_ = self._varkey(fn, other_v)
                    asg = self.assigns.get(key_, []) if key_ is not None else []
                    inline_empty = bool(asg) and all(
                        rhs_ == ("int", 0) or (rhs_[0] == "call" and show(rhs_[1]) == "fifo_add") for _n, rhs_, _f in asg)
                if (c[0] == "call" and show(c[1]) == "fifo_empty" and not tr) or inline_empty:
                    lo, hi = self.cf.pe(cnode), self.cf.pb(node)
                    other = False
                    for n in self.cf.walk(self.cf.func(fn)):
                        if n.get("kind") == "CallExpr" and show(ex(n)[1]) == "fifo_first":
                            o = self.cf.pb(n)
                            if o is not None and lo < o < hi:
                                other = True
                    if not other:
                        msg = ("queue discipline (Vincent-Soille): a FIFO pop dominated by a negative emptiness test "
                               "returns a pixel, not the end-of-level marker")
                        if msg not in self.assumptions:
                            self.assumptions.append(msg)
                        return Rng(r.lo, r.hi)
        return r


def _maxlo(a, b):
    """Lower bound of max(x, y): the larger of the lower bounds; one known bound suffices."""
    if a is None:
        return b
    if b is None:
        return a
    m = pmax(a, b)
    return m if m is not None else a


def _minhi(a, b):
    if a is None:
        return b
    if b is None:
        return a
    m = pmin(a, b)
    return m if m is not None else a


def pmin_keep(a, b):
    if a is None:
        return b
    m = pmin(a, b)
    return m if m is not None else a


def pmax_keep(a, b):
    if a is None:
        return b
    m = pmax(a, b)
    return m if m is not None else a


def access_sites(cf):
    """Every array access: (function, node, base tree, index tree)."""
    out = []
    for fn, fnode in cf.funcs.items():
        for n in cf.walk(fnode):
            if n.get("kind") == "ArraySubscriptExpr":
                t = ex(n)
                out.append((fn, n, t[1], t[2]))
            elif n.get("kind") == "UnaryOperator" and n.get("opcode") == "*":
                t = ex(n)
                inner = t[2]
                if inner[0] == "bin" and inner[1] == "+":
                    out.append((fn, n, inner[2], inner[3]))
    return out
