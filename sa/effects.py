"""E2 - interprocedural may-alias / write-effect analysis over the five-place xarray model.

Abstract value (AV): for each *place* of the value -- C container, V data-variable metadata object(s),
B data buffer(s), Vc:<name> coordinate Variable objects, Bc coordinate buffers -- the set of
(root, root-place) pairs it may be identical with.  Roots: 'p:<param>', 'self' (accessor receiver),
'g:<module>.<name>' (module-level object), 'ctor:<Class>.<param>' (constructor argument kept in a field).
A write sink on a place records an effect for every pair in that place.  Summaries (effects on own
roots + aliasing of the return value) are iterated to a fixed point over the whole package.
"""
import ast

from . import xrmodel as X
from .model import UNKNOWN, ClassInfo, FuncInfo, Module, call_name, kwarg, unparse

EMPTY = frozenset()
ACCESSOR_CLASSES = {"SpecArray": "DA", "SpecDataset": "DS", "Partition": "DA"}
ACCESSOR_FIELDS = {"_obj", "dset"}
# wavespectra convention (station datasets, enforced by Coordinates._validate on the selection paths):
# which non-dimension variables are functions of which dimension.  Used only to decide that a variable
# returned by a fancy (copying) isel along that dimension is a copy.
CARRIES = {"lon": {"site"}, "lat": {"site"}}


class AV:
    __slots__ = ("kind", "C", "V", "B", "Bc", "vc", "elem", "items", "acc", "inst", "ctor", "fd")

    def __init__(self, kind="TOP", C=EMPTY, V=EMPTY, B=EMPTY, Bc=EMPTY, vc=None, elem=None, items=None,
                 acc=None, inst=None, ctor=None, fd=EMPTY):
        self.kind, self.C, self.V, self.B, self.Bc = kind, C, V, B, Bc
        self.fd = fd          # dimensions along which this object is a fancy-indexed copy
        self.vc = vc if vc is not None else {"*": EMPTY}
        self.elem, self.items, self.acc, self.inst, self.ctor = elem, items, acc, inst, ctor

    @staticmethod
    def root(r, kind="TOP"):
        return AV(kind, frozenset({(r, "C")}), frozenset({(r, "V")}), frozenset({(r, "B")}),
                  frozenset({(r, "Bc")}), {"*": frozenset({(r, "Vc:*")})})

    def clone(self, **kw):
        a = AV(self.kind, self.C, self.V, self.B, self.Bc, dict(self.vc), self.elem, self.items, self.acc,
               self.inst, self.ctor, self.fd)
        for k, v in kw.items():
            setattr(a, k, v)
        return a

    def vcget(self, name):
        if name in self.vc:
            return self.vc[name]
        out = set()
        for (r, rp) in self.vc.get("*", EMPTY):
            out.add((r, "Vc:" + name) if rp == "Vc:*" else (r, rp))
        return frozenset(out)

    def vc_all(self):
        out = set()
        for v in self.vc.values():
            out |= v
        return frozenset(out)

    def all_pairs(self):
        s = set(self.C | self.V | self.B | self.Bc | self.vc_all())
        if self.elem is not None:
            s |= self.elem.all_pairs()
        if self.items:
            for i in self.items:
                s |= i.all_pairs()
        return frozenset(s)

    def is_fresh(self):
        return not self.all_pairs()

    def key(self):
        return (self.kind, self.C, self.V, self.B, self.Bc, tuple(sorted(self.vc.items())),
                self.elem.key() if self.elem else None,
                tuple(i.key() for i in self.items) if self.items else None, self.acc,
                self.inst.qualname if self.inst else None)

    def __repr__(self):
        return f"AV({self.kind} C={set(self.C)} V={set(self.V)} B={set(self.B)} vc={self.vc})"


def fresh(kind="TOP"):
    return AV(kind)


def lump(pairs, kind="TOP"):
    """A value all of whose places may be any of `pairs` (used for elements of opaque containers)."""
    p = frozenset(pairs)
    return AV(kind, p, p, p, p, {"*": p})


def join(a, b):
    if a is None:
        return b
    if b is None:
        return a
    kind = a.kind if a.kind == b.kind else ("XR" if {a.kind, b.kind} <= {"DA", "DS", "XR"} else "TOP")
    if a.kind == "SC" and b.kind != "SC":
        kind = b.kind
    if b.kind == "SC" and a.kind != "SC":
        kind = a.kind
    vc = {}
    for n in set(a.vc) | set(b.vc):
        vc[n] = a.vcget(n) | b.vcget(n) if n != "*" else a.vc.get("*", EMPTY) | b.vc.get("*", EMPTY)
    items = None
    if a.items and b.items and len(a.items) == len(b.items):
        items = [join(x, y) for x, y in zip(a.items, b.items)]
    elem = join(a.elem, b.elem) if (a.elem is not None or b.elem is not None) else None
    if (a.items or b.items) and items is None:
        for it in (a.items or []) + (b.items or []):
            elem = join(elem, it)
    return AV(kind, a.C | b.C, a.V | b.V, a.B | b.B, a.Bc | b.Bc, vc, elem, items,
              a.acc if a.acc == b.acc else None, a.inst if a.inst is b.inst else None,
              a.ctor if a.inst is b.inst else None)


class Effect:
    __slots__ = ("root", "place", "file", "line", "func", "construct", "what", "via")

    def __init__(self, root, place, file, line, func, construct, what, via=()):
        self.root, self.place, self.file, self.line = root, place, file, line
        self.func, self.construct, self.what, self.via = func, construct, what, tuple(via)

    def lifted(self, root, place, callsite):
        return Effect(root, place, self.file, self.line, self.func, self.construct, self.what,
                      (callsite,) + self.via)


class Summary:
    def __init__(self):
        self.effects = {}     # (root, place) -> Effect
        self.ret = None       # AV or None
        self.field_writes = []  # (attr, file, line, construct) writes to self.<attr>
        self.gsites = {}      # (file, func, construct, root) -> Effect : EVERY distinct sink site on a module-level root
        #                       (effects keeps one representative per (root, place); a second writer must not hide behind it)

    def sig(self):
        return (frozenset(self.effects), self.ret.key() if self.ret else None, len(self.field_writes), len(self.gsites))


class Engine:
    def __init__(self, repo):
        self.repo = repo
        self.summ = {}           # qualname -> Summary
        self.fields = {}         # class qualname -> {field: AV}
        self.unresolved = 0
        self.resolved = 0
        self.sinks = 0
        self.top_sinks = []      # sinks on values of unknown kind carrying roots (reported as undecided)
        self.funcs = {f.qualname: f for f in repo.all_funcs(include_inlined=True)}
        for q in self.funcs:
            self.summ[q] = Summary()

    # ---- driver -----------------------------------------------------------------------
    def solve(self, max_iter=12):
        for it in range(max_iter):
            changed = False
            self.unresolved = self.resolved = self.sinks = 0
            self.top_sinks = []
            for q, fi in self.funcs.items():
                new = FuncAnalysis(self, fi).run()
                if new.sig() != self.summ[q].sig():
                    changed = True
                self.summ[q] = new
            if not changed:
                return it + 1
        return max_iter

    # ---- class field model -------------------------------------------------------------
    def field_av(self, cls, name):
        return self.fields.get(cls.qualname, {}).get(name)

    def set_field(self, cls, name, av):
        d = self.fields.setdefault(cls.qualname, {})
        old = d.get(name)
        d[name] = join(old, av) if old is not None else av


def const_str(repo, mod, e):
    v = repo.const(mod, e)
    return v if isinstance(v, str) else None


class FuncAnalysis:
    def __init__(self, eng, fi):
        self.eng, self.fi, self.repo = eng, fi, eng.repo
        self.mod = fi.module
        self.out = Summary()
        self.env = {}
        self.cls = fi.cls
        self.is_acc = bool(fi.cls and fi.cls.name in ACCESSOR_CLASSES)
        self.is_plugin = fi.cls is None and fi.name.startswith("to_") and fi.module.name.startswith("wavespectra.output.")
        self.ret = None

    # -- entry ------------------------------------------------------------------------------
    def run(self):
        a = self.fi.node.args
        params = a.posonlyargs + a.args + a.kwonlyargs
        for i, p in enumerate(params):
            if i == 0 and self.cls is not None and "staticmethod" not in self.fi.decorators:
                if self.is_acc:
                    self.env[p.arg] = AV(kind="SELF")
                else:
                    self.env[p.arg] = AV.root("self", "SELF").clone(inst=self.cls)
                continue
            if i == 0 and self.is_plugin:
                self.env[p.arg] = AV.root("self", "DS").clone(acc="SpecDataset")
                continue
            if self.cls is not None and self.fi.name == "__init__" and not self.is_acc:
                self.env[p.arg] = AV.root(f"ctor:{self.cls.name}.{p.arg}")
            else:
                self.env[p.arg] = AV.root(f"p:{p.arg}", self._param_kind(p.arg))
        # constructor arguments of an ordinary class live on in the fields: their roots are 'ctor:' roots, bound again at every
        # method call on the constructed instance (also for *args / **kwargs)
        pre = f"ctor:{self.cls.name}." if (self.cls is not None and self.fi.name == "__init__" and not self.is_acc) else "p:"
        if a.vararg:
            self.env[a.vararg.arg] = AV("PY", elem=lump({(f"{pre}*{a.vararg.arg}", "B")}))
        if a.kwarg:
            # **kwargs is a fresh dict; its values are the caller's objects
            self.env[a.kwarg.arg] = AV("PY", elem=lump({(f"{pre}**{a.kwarg.arg}", "B")}))
        self.block(self.fi.node.body)
        self.out.ret = self.ret
        return self.out

    XR_ONLY = {"spec", "isel", "sel", "data_vars", "dims", "coords", "sortby", "assign_coords", "chunk", "to_dataset",
               "reset_coords", "expand_dims", "stack", "interp", "rename_vars", "drop_vars", "drop_dims", "sizes",
               "variables", "swap_dims", "notnull", "fillna", "where", "to_netcdf", "unstack", "identical",
               "broadcast_equals", "assign", "interp_like", "squeeze", "transpose"}
    DS_ONLY = {"data_vars", "rename_vars", "drop_dims", "variables", "to_array", "to_dataarray"}
    DA_ONLY = {"to_dataset", "variable"}

    def _param_kind(self, name):
        """Kind of a parameter from the xarray-only members the function uses on it."""
        used = set()
        for n in ast.walk(self.fi.node):
            if isinstance(n, ast.Attribute) and isinstance(n.value, ast.Name) and n.value.id == name:
                used.add(n.attr)
        if used & self.DS_ONLY:
            return "DS"
        if used & self.XR_ONLY:
            return "XR"
        return "TOP"

    # -- statements -------------------------------------------------------------------------
    def block(self, stmts):
        for s in stmts:
            self.stmt(s)

    def stmt(self, s):
        if isinstance(s, ast.Assign):
            v = self.ev(s.value)
            for t in s.targets:
                self.assign(t, v, s)
        elif isinstance(s, ast.AnnAssign):
            if s.value is not None:
                self.assign(s.target, self.ev(s.value), s)
        elif isinstance(s, ast.AugAssign):
            self.augassign(s)
        elif isinstance(s, ast.Expr):
            self.ev(s.value)
        elif isinstance(s, ast.Return):
            if s.value is not None:
                self.ret = join(self.ret, self.ev(s.value))
        elif isinstance(s, ast.If):
            self.ev(s.test)
            e0 = dict(self.env)
            # isinstance(x, xr.DataArray) / isinstance(x, xr.Dataset) narrows the kind of x inside the branch (which places `.attrs = ` writes
            # depends on it: a DataArray's attrs live on its Variable, a Dataset's on the container)
            t_ = s.test
            if isinstance(t_, ast.Call) and isinstance(t_.func, ast.Name) and t_.func.id == "isinstance" and len(t_.args) == 2 \
                    and isinstance(t_.args[0], ast.Name) and t_.args[0].id in self.env:
                cn_ = unparse(t_.args[1]).split(".")[-1]
                kind_ = {"DataArray": "DA", "Dataset": "DS"}.get(cn_)
                cur_ = self.env[t_.args[0].id]
                if kind_ and cur_.kind in ("DS", "DA", "XR", "TOP") and cur_.kind != kind_:
                    self.env[t_.args[0].id] = cur_.clone(kind=kind_)
            self.block(s.body)
            e1 = self.env
            self.env = dict(e0)
            self.block(s.orelse)
            self.env = self._join_env(e1, self.env)
        elif isinstance(s, (ast.For, ast.AsyncFor)):
            it = self.ev(s.iter)
            e0 = dict(self.env)
            for _ in range(2):
                self.assign(s.target, self.iter_elem(it, s.iter), s)
                self.block(s.body)
                self.env = self._join_env(e0, self.env)
            self.block(s.orelse)
        elif isinstance(s, ast.While):
            e0 = dict(self.env)
            for _ in range(2):
                self.ev(s.test)
                self.block(s.body)
                self.env = self._join_env(e0, self.env)
            self.block(s.orelse)
        elif isinstance(s, (ast.With, ast.AsyncWith)):
            for it in s.items:
                v = self.ev(it.context_expr)
                if it.optional_vars is not None:
                    self.assign(it.optional_vars, v, s)
            self.block(s.body)
        elif isinstance(s, ast.Try):
            e0 = dict(self.env)
            self.block(s.body)
            envs = [self.env]
            for h in s.handlers:
                self.env = self._join_env(e0, envs[0])
                if h.name:
                    self.env[h.name] = fresh("SC")
                self.block(h.body)
                envs.append(self.env)
            self.env = envs[0]
            for e in envs[1:]:
                self.env = self._join_env(self.env, e)
            self.block(s.orelse)
            self.block(s.finalbody)
        elif isinstance(s, ast.Delete):
            for t in s.targets:
                if isinstance(t, ast.Subscript):
                    base = self.ev(t.value)
                    self.write_container(base, t, s, "del item")
                elif isinstance(t, ast.Attribute):
                    base = self.ev(t.value)
                    self.sink(base, ("C", "V"), s, "del attribute")
        elif isinstance(s, ast.Raise):
            if s.exc is not None:
                self.ev(s.exc)
        elif isinstance(s, ast.Assert):
            self.ev(s.test)
        elif isinstance(s, (ast.FunctionDef, ast.AsyncFunctionDef)):
            self.env[s.name] = fresh("SC")
        elif isinstance(s, (ast.Import, ast.ImportFrom, ast.Pass, ast.Break, ast.Continue, ast.Global,
                            ast.Nonlocal, ast.ClassDef)):
            pass
        else:
            for n in ast.iter_child_nodes(s):
                if isinstance(n, ast.expr):
                    self.ev(n)

    def _join_env(self, a, b):
        out = {}
        for k in set(a) | set(b):
            if k in a and k in b:
                out[k] = a[k] if a[k] is b[k] else join(a[k], b[k])
            else:
                out[k] = a.get(k) or b.get(k)
        return out

    # -- effects ----------------------------------------------------------------------------
    def record(self, pairs, node, what):
        self.eng.sinks += 1
        for (r, rp) in pairs:
            k = (r, rp)
            if k not in self.out.effects:
                self.out.effects[k] = Effect(r, rp, self.fi.file, getattr(node, "lineno", 0), self.fi.qualname,
                                             unparse(node)[:160], what)
            if r.startswith("g:"):
                gk = (self.fi.file, self.fi.qualname, unparse(node)[:160], r)
                if gk not in self.out.gsites:
                    self.out.gsites[gk] = Effect(r, rp, self.fi.file, getattr(node, "lineno", 0), self.fi.qualname, unparse(node)[:160], what)

    def sink(self, av, places, node, what):
        """Write to the given places of value av."""
        pairs = set()
        for p in places:
            if p == "C":
                pairs |= av.C
            elif p == "V":
                pairs |= av.V
            elif p == "B":
                pairs |= av.B
            elif p == "Bc":
                pairs |= av.Bc
            elif p == "Vc":
                pairs |= av.vc_all()
        if av.kind in ("PY", "TOP") and "B" in places and av.elem is None:
            pass
        self.record(pairs, node, what)

    def write_container(self, base, target, node, what):
        """`base[k] = v` / `del base[k]` / base.update(...)"""
        k = base.kind
        if k in ("DA", "DS", "XR"):
            self.sink(base, ("C",), node, f"{what} (container of an xarray object)")
        elif k in ("ND",):
            self.sink(base, ("B",), node, f"{what} (array buffer)")
        elif k == "PY":
            self.sink(base, ("B",), node, f"{what} (python container)")
        elif k == "SC":
            pass
        else:
            self.sink(base, ("C", "B"), node, f"{what} (object of unknown kind: container or buffer)")

    # -- assignment -------------------------------------------------------------------------
    def assign(self, t, v, s):
        if isinstance(t, ast.Name):
            self.env[t.id] = v
        elif isinstance(t, (ast.Tuple, ast.List)):
            for i, e in enumerate(t.elts):
                if isinstance(e, ast.Starred):
                    self.assign(e.value, self.iter_elem(v, None), s)
                elif v.items and len(v.items) == len(t.elts):
                    self.assign(e, v.items[i], s)
                else:
                    self.assign(e, self.iter_elem(v, None), s)
        elif isinstance(t, ast.Subscript):
            base_e = t.value
            # x.values[...] = v / x.data[...] = v / x.loc[...] = v
            if isinstance(base_e, ast.Attribute) and base_e.attr in ("values", "data", "loc", "iloc", "at", "iat"):
                owner = self.ev(base_e.value)
                self.sink(owner, ("B",), s, f"item assignment through .{base_e.attr} writes the data buffer in place")
                return
            base = self.ev(base_e)
            self.ev(t.slice)
            self.write_container(base, t, s, "item assignment")
            # the stored value is now reachable through the container
            if base.kind in ("DA", "DS", "XR") and isinstance(base_e, ast.Name):
                nb = base.clone()
                nb.B = base.B | v.B | v.Bc
                name = const_str(self.repo, self.mod, t.slice)
                if name is not None:
                    nb.vc[name] = EMPTY  # a new Variable object is stored
                nb.Bc = base.Bc | v.B | v.Bc
                self.env[base_e.id] = nb
            elif base.kind in ("PY", "TOP") and isinstance(base_e, ast.Name):
                nb = base.clone()
                nb.elem = join(base.elem, v) if base.elem is not None else (v if base.kind == "PY" else join(lump(base.all_pairs()), v))
                self.env[base_e.id] = nb
        elif isinstance(t, ast.Attribute):
            owner_e = t.value
            owner = self.ev(owner_e)
            if owner.kind == "SELF":
                if isinstance(owner_e, ast.Name):
                    if self.is_acc:
                        dep = any(r == "self" or r.startswith("p:") for r, _ in v.all_pairs())
                        isparam = isinstance(s, ast.Assign) and isinstance(s.value, ast.Name) and s.value.id in self.fi.params
                        tag = t.attr if self.fi.name != "__init__" else "__init__:" + t.attr
                        self.out.field_writes.append((tag, self.fi.file, s.lineno, unparse(s)[:140], dep, isparam))
                    else:
                        self.eng.set_field(self.cls, t.attr, v)
                        if self.fi.name != "__init__":
                            self.out.field_writes.append((t.attr, self.fi.file, s.lineno, unparse(s)[:140]))
                return
            if t.attr in ("attrs", "encoding"):
                self.sink(owner, self._meta_places(owner), s, f".{t.attr} replaced on an object")
            elif t.attr in ("values", "data"):
                self.sink(owner, ("V", "B") if owner.kind != "ND" else ("B",), s,
                          f".{t.attr} assignment replaces the variable's data in place")
            elif t.attr == "name":
                self.sink(owner, ("C",), s, ".name assignment")
            elif t.attr in ("index", "columns", "shape", "dtype", "flags"):
                self.sink(owner, ("B", "C"), s, f".{t.attr} assignment")
            else:
                if owner.acc:
                    # attribute set on an accessor instance: instance state
                    self.out.field_writes.append((t.attr, self.fi.file, s.lineno, unparse(s)[:140], True, False))
                self.sink(owner, ("C",), s, f"attribute .{t.attr} assignment")
        elif isinstance(t, ast.Starred):
            self.assign(t.value, v, s)

    def _meta_places(self, owner):
        if owner.kind == "DA":
            return ("V",)
        if owner.kind == "DS":
            return ("C",)
        return ("V", "C")

    def augassign(self, s):
        t = s.target
        v = self.ev(s.value)
        if isinstance(t, ast.Name):
            cur = self.env.get(t.id)
            if cur is None:
                cur = self.ev(t)
            if cur.kind in ("DA", "DS", "XR", "ND"):
                self.sink(cur, ("B",), s, "augmented assignment operates in place on the array buffer")
                self.env[t.id] = cur
            elif cur.kind == "PY":
                self.sink(cur, ("B",), s, "augmented assignment extends the container in place")
                self.env[t.id] = cur.clone(elem=join(cur.elem, v) if cur.elem else v)
            elif cur.kind == "SC":
                self.env[t.id] = v if v.kind != "SC" else cur
                if v.kind in ("DA", "DS", "XR", "ND"):
                    # scalar op= array  -> rebinding to a new array (Python falls back to __radd__)
                    self.env[t.id] = self.arith([v])
            else:
                if cur.all_pairs():
                    self.sink(cur, ("B",), s, "augmented assignment on a caller-visible object of unknown kind "
                                               "(in place for arrays / lists)")
                self.env[t.id] = cur
        elif isinstance(t, ast.Subscript):
            base_e = t.value
            if isinstance(base_e, ast.Attribute) and base_e.attr in ("values", "data", "loc", "iloc"):
                owner = self.ev(base_e.value)
                self.sink(owner, ("B",), s, "in-place update through .values/.loc")
                return
            base = self.ev(base_e)
            if base.kind in ("DA", "DS", "XR"):
                # tmp = base[k]; tmp op= v (in place on the shared buffer); base[k] = tmp
                self.sink(base, ("B", "C"), s, "ds[k] op= v updates the variable's buffer in place "
                                                "(buffers are shared by rename / shallow copies)")
            else:
                self.write_container(base, t, s, "in-place item update")
        elif isinstance(t, ast.Attribute):
            owner = self.ev(t.value)
            if owner.kind == "SELF":
                if self.is_acc and self.fi.name != "__init__":
                    self.out.field_writes.append((t.attr, self.fi.file, s.lineno, unparse(s)[:140], True, False))
                return
            if t.attr in ("values", "data"):
                self.sink(owner, ("B",), s, "in-place update of .values")
            else:
                self.sink(owner, ("C", "V"), s, f"in-place update of attribute .{t.attr}")

    # -- iteration --------------------------------------------------------------------------
    def iter_elem(self, it, node):
        if it.items:
            out = None
            for i in it.items:
                out = join(out, i)
            return out
        if it.elem is not None:
            return it.elem
        if it.kind in ("DA", "DS", "XR"):
            return self.view(it)
        if it.kind == "ND":
            return AV("ND", B=it.B)
        if it.kind == "SC":
            return fresh("SC")
        return lump(it.all_pairs()) if it.all_pairs() else fresh("TOP")

    # -- xarray transforms ------------------------------------------------------------------
    def arith(self, operands):
        xs = [o for o in operands if o.kind in ("DA", "DS", "XR")]
        if xs:
            vc, Bc = None, EMPTY
            for x in xs:
                vc = dict(x.vc) if vc is None else {n: (vc.get(n, AV(vc=vc).vcget(n)) | x.vcget(n)) if n != "*" else vc.get("*", EMPTY) | x.vc.get("*", EMPTY) for n in set(vc) | set(x.vc)}
                Bc |= x.Bc
            kind = xs[0].kind if all(x.kind == xs[0].kind for x in xs) else "XR"
            if any(x.kind == "DS" for x in xs):
                kind = "DS"
            return AV(kind, vc=vc, Bc=Bc)
        if any(o.kind == "ND" for o in operands):
            return fresh("ND")
        if all(o.kind == "SC" for o in operands):
            return fresh("SC")
        # unknown kinds: result of arithmetic is a new object; coordinate objects may be passed through
        vc, Bc = {"*": EMPTY}, EMPTY
        for o in operands:
            if o.kind == "TOP":
                for n in set(vc) | set(o.vc):
                    vc[n] = (vc.get(n, EMPTY) if n in vc else AV(vc=vc).vcget(n)) | o.vcget(n) if n != "*" else vc.get("*", EMPTY) | o.vc.get("*", EMPTY)
                Bc |= o.Bc
        return AV("TOP", vc=vc, Bc=Bc)

    def view(self, x, kind=None):
        V = EMPTY if x.kind == "DA" else x.V
        return AV(kind or x.kind, C=EMPTY, V=V, B=x.B, Bc=x.Bc, vc=dict(x.vc))

    def newvars(self, x, kind=None):
        return AV(kind or x.kind, B=x.B, Bc=x.Bc)

    def wherelike(self, x):
        return AV(x.kind, Bc=x.Bc)

    def sub(self, x, name):
        """x[name] / x.name : a data variable (Dataset) or coordinate."""
        if x.fd and (name in x.fd or CARRIES.get(name, set()) & x.fd):
            return AV("DA", vc=dict(x.vc), Bc=x.Bc)      # copied by the fancy isel
        V = x.vcget(name)
        B = x.Bc
        if x.kind != "DA":
            V = V | x.V
            B = B | x.B
        return AV("DA", C=EMPTY, V=V, B=B, Bc=x.Bc, vc=dict(x.vc))

    def indexer_kind(self, e):
        if isinstance(e, ast.Constant) and isinstance(e.value, int) and not isinstance(e.value, bool):
            return "INT"
        if isinstance(e, ast.UnaryOp) and isinstance(e.operand, ast.Constant):
            return "INT"
        if isinstance(e, ast.Call) and call_name(e) == "slice":
            return "SLICE"
        if isinstance(e, (ast.List, ast.ListComp)):
            return "SEQ"
        if isinstance(e, ast.Call) and call_name(e) in ("np.arange", "list", "sorted", "np.array", "np.argsort",
                                                         "np.unique", "np.append", "np.atleast_1d"):
            return "SEQ"
        if isinstance(e, ast.Subscript) and isinstance(e.value, ast.Call) and call_name(e.value) in ("np.where", "np.nonzero"):
            return "SEQ"
        if isinstance(e, ast.Name):
            v = self.env.get(e.id)
            # an element taken from a sequence by a for loop may be a scalar label (for d in dirs: x.sel(dir=d) is a VIEW): not provably a sequence
            if any(isinstance(l_, (ast.For, ast.AsyncFor, ast.comprehension)) and any(isinstance(t_, ast.Name) and t_.id == e.id for t_ in ast.walk(l_.target))
                   for l_ in ast.walk(self.fi.node)):
                return "UNK"
            if v is not None and v.kind == "PY" :
                return "SEQ"
            if v is not None and v.kind == "ND":
                return "SEQ"
            if v is not None and v.kind in ("DA", "XR") :
                return "SEQ"     # vectorised label selection by a DataArray of labels copies
        return "UNK"

    def index(self, x, call, method):
        """isel / sel"""
        dims = {}
        for k in call.keywords:
            if k.arg is not None:
                if k.arg in ("drop", "method", "tolerance", "missing_dims"):
                    continue
                dims[k.arg] = self.indexer_kind(k.value)
            elif isinstance(k.value, ast.Dict):
                for kk, vv in zip(k.value.keys, k.value.values):
                    n = const_str(self.repo, self.mod, kk) if kk is not None else None
                    dims[n or "?"] = self.indexer_kind(vv)
            else:
                dims["?"] = "UNK"
        for a in call.args:
            if isinstance(a, ast.Dict):
                for kk, vv in zip(a.keys, a.values):
                    n = const_str(self.repo, self.mod, kk) if kk is not None else None
                    dims[n or "?"] = self.indexer_kind(vv)
            else:
                dims["?"] = "UNK"
            self.ev(a)
        for k in call.keywords:
            self.ev(k.value)
        r = self.view(x)
        if dims and all(v == "SEQ" for v in dims.values()) and "?" not in dims:
            r.B = EMPTY
            r.V = EMPTY
        for d, kd in dims.items():
            if d == "?":
                continue
            if kd == "SEQ" or method == "sel":
                r.vc[d] = EMPTY
            if kd == "SEQ":
                r.fd = r.fd | {d}
        return r

    # -- expressions ------------------------------------------------------------------------
    def ev(self, e):
        m = getattr(self, "ev_" + type(e).__name__, None)
        if m is not None:
            return m(e)
        out = None
        for n in ast.iter_child_nodes(e):
            if isinstance(n, ast.expr):
                out = join(out, self.ev(n))
        return out if out is not None else fresh("TOP")

    def ev_Constant(self, e):
        return fresh("SC")

    def ev_JoinedStr(self, e):
        for v in e.values:
            if isinstance(v, ast.FormattedValue):
                self.ev(v.value)
        return fresh("SC")

    def ev_Name(self, e):
        if e.id in self.env:
            return self.env[e.id]
        sym = self.repo.resolve_symbol(self.mod, e.id)
        if isinstance(sym, (FuncInfo, ClassInfo, Module)):
            return fresh("SC")
        if isinstance(sym, tuple) and sym[0] == "const":
            cm, ce = sym[1], sym[2]
            if isinstance(ce, (ast.Constant, ast.JoinedStr)) or (isinstance(ce, (ast.BinOp, ast.UnaryOp)) and self.repo.const(cm, ce) is not UNKNOWN and not isinstance(self.repo.const(cm, ce), (dict, list))):
                return fresh("SC")
            kind = "PY" if isinstance(ce, (ast.Dict, ast.List, ast.Set, ast.DictComp, ast.ListComp)) else "TOP"
            r = AV.root(f"g:{cm.name}.{e.id}", kind)
            if isinstance(ce, ast.Call):
                csym = self.repo.resolve_expr(cm, ce.func)
                if isinstance(csym, ClassInfo):
                    r = r.clone(kind="OBJ", inst=csym)
            return r
        return fresh("SC")

    def ev_Tuple(self, e):
        items = [self.ev(x) for x in e.elts]
        return AV("PY", items=items)

    def ev_List(self, e):
        el = None
        for x in e.elts:
            el = join(el, self.ev(x))
        return AV("PY", elem=el if el is not None else fresh("SC"))

    ev_Set = ev_List

    def ev_Dict(self, e):
        el = None
        for k, v in zip(e.keys, e.values):
            vv = self.ev(v)
            if k is None:
                vv = self.iter_elem(vv, None) if vv.kind == "PY" else vv
            else:
                self.ev(k)
            el = join(el, vv)
        return AV("PY", elem=el if el is not None else fresh("SC"))

    def _comp(self, e, elt_nodes):
        saved = dict(self.env)
        for g in e.generators:
            it = self.ev(g.iter)
            self.assign(g.target, self.iter_elem(it, g.iter), e)
            for c in g.ifs:
                self.ev(c)
        el = None
        for n in elt_nodes:
            el = join(el, self.ev(n))
        self.env = saved
        return AV("PY", elem=el)

    def ev_ListComp(self, e):
        return self._comp(e, [e.elt])

    ev_SetComp = ev_ListComp
    ev_GeneratorExp = ev_ListComp

    def ev_DictComp(self, e):
        return self._comp(e, [e.value])

    def ev_BinOp(self, e):
        a, b = self.ev(e.left), self.ev(e.right)
        if isinstance(e.op, (ast.Add, ast.Mult)) and (a.kind == "PY" or b.kind == "PY") and a.kind in ("PY", "SC") and b.kind in ("PY", "SC"):
            return AV("PY", elem=join(a.elem, b.elem))
        if isinstance(e.op, ast.Mod) and a.kind == "SC":
            return fresh("SC")
        return self.arith([a, b])

    def ev_UnaryOp(self, e):
        a = self.ev(e.operand)
        if isinstance(e.op, ast.Not):
            return fresh("SC")
        return self.arith([a])

    def ev_BoolOp(self, e):
        out = None
        for v in e.values:
            out = join(out, self.ev(v))
        return out

    def ev_Compare(self, e):
        ops = [self.ev(e.left)] + [self.ev(c) for c in e.comparators]
        if all(isinstance(o, (ast.Is, ast.IsNot, ast.In, ast.NotIn)) for o in e.ops):
            return fresh("SC")
        return self.arith(ops)

    def ev_IfExp(self, e):
        self.ev(e.test)
        return join(self.ev(e.body), self.ev(e.orelse))

    def ev_Lambda(self, e):
        return fresh("SC")

    def ev_Starred(self, e):
        return self.ev(e.value)

    def ev_NamedExpr(self, e):
        v = self.ev(e.value)
        self.assign(e.target, v, e)
        return v

    def ev_Subscript(self, e):
        cg = self._const_global(e)
        if cg is not None:
            return cg
        x = self.ev(e.value)
        k = self.ev(e.slice)
        if x.inst is not None and x.kind in ("OBJ", "SELF"):
            gi = x.inst.methods.get("__getitem__")
            if gi is not None:
                r = self.call_internal(gi, [k], {}, e, self_av=x)
                # the element is (part of) the receiver's state
                return AV(x.kind, x.C, x.V, x.B, x.Bc, dict(x.vc), inst=x.inst)
        if x.kind in ("DA", "DS", "XR"):
            name = const_str(self.repo, self.mod, e.slice)
            if name is not None:
                return self.sub(x, name)
            if isinstance(e.slice, ast.Dict):
                fake = ast.Call(func=ast.Name(id="isel"), args=[e.slice], keywords=[])
                return self.index(x, fake, "isel")
            if isinstance(e.slice, (ast.List, ast.ListComp)):
                return self.newvars(x)    # ds[[names]] : subset of variables
            r = self.view(x)
            if isinstance(e.slice, ast.Name) and k.kind in ("TOP", "SC") and not k.all_pairs():
                # x[name] with a name that is not a constant (a loop over dimension names): may be any coordinate / variable OBJECT of x
                r = r.clone(V=r.V | x.vc_all() | x.V, Bc=r.Bc | x.Bc)
            return r
        if x.kind == "ND":
            return AV("ND", B=x.B)
        if x.kind == "SC":
            return fresh("SC")
        if x.kind == "PY":
            if x.items:
                idx = self.repo.const(self.mod, e.slice)
                if isinstance(idx, int) and -len(x.items) <= idx < len(x.items):
                    return x.items[idx]
                return self.iter_elem(x, None)
            if x.elem is not None:
                if isinstance(e.slice, ast.Slice):
                    return AV("PY", elem=x.elem)
                return x.elem
            return fresh("TOP")
        # unknown kind: could be a Dataset variable, an array view or a container element
        name = const_str(self.repo, self.mod, e.slice)
        if name is not None and x.all_pairs():
            r = self.sub(x, name)
            r.kind = "TOP"
            if x.elem is not None:
                r = join(r, x.elem)
            return r
        if x.elem is not None:
            return x.elem
        return x.clone(C=x.C, acc=None) if x.all_pairs() else fresh("TOP")

    def _const_global(self, e):
        """Attribute / subscript chain rooted at a module-level object whose value is determined by
        constants (e.g. attrs.FREQNAME, attrs.ATTRS.dp.units, DEFAULTS["ihmax"]): the key exists, so
        dict-protocol methods with insert-on-miss behaviour are not triggered."""
        b = e
        while isinstance(b, (ast.Attribute, ast.Subscript)):
            b = b.value
        if not isinstance(b, ast.Name) or b.id in self.env:
            return None
        c = self.repo.const(self.mod, e)
        if c is UNKNOWN:
            return None
        if isinstance(c, (dict, list)):
            sym = self.repo.resolve_symbol(self.mod, b.id)
            if isinstance(sym, tuple) and sym[0] == "const":
                return self.ev_Name(b)
            return None
        return fresh("SC")

    def ev_Attribute(self, e):
        cg = self._const_global(e)
        if cg is not None:
            return cg
        x = self.ev(e.value)
        a = e.attr
        if x.kind == "SELF":
            if self.is_acc:
                if a in ACCESSOR_FIELDS:
                    return AV.root("self", ACCESSOR_CLASSES[self.cls.name]).clone()
                m = self._acc_member(self.cls.name, a)
                if m is not None and m.is_property:
                    return self.call_internal(m, [], {}, e, self_av=AV.root("self", ACCESSOR_CLASSES[self.cls.name]))
                if m is None and a in self._acc_state_fields():
                    return AV.root(f"selfstate:{self.cls.name}.{a}", "TOP")
                if m is None and self.cls.name == "SpecDataset":
                    # __getattr__ falls through to the wrapped Dataset
                    return self._xr_attr(AV.root("self", "DS"), a)
                return fresh("SC")
            cls = x.inst
            if cls is not None:
                m = cls.methods.get(a)
                if m is not None and m.is_property:
                    return self.call_internal(m, [], {}, e, self_av=x)
                f = self.eng.field_av(cls, a)
                if f is not None:
                    return f
            return fresh("TOP")
        if x.inst is not None:     # known instance of an ordinary class
            m = x.inst.methods.get(a)
            if m is not None and m.is_property:
                return self.call_internal(m, [], {}, e, self_av=x)
            f = self.eng.field_av(x.inst, a)
            if f is not None:
                return self.inst_field(f, x)
            ga = x.inst.methods.get("__getattr__")
            if ga is not None and m is None:
                self.call_internal(ga, [fresh("SC")], {}, e, self_av=x)
                return AV(x.kind, x.C, x.V, x.B, x.Bc, dict(x.vc), inst=x.inst)
            return fresh("TOP")
        if x.acc:                  # accessor object
            if x.acc == "Partition":
                return fresh("SC")
            m = self._acc_member(x.acc, a) or (self._acc_member("SpecArray", a) if x.acc == "SpecDataset" else None)
            if m is not None and m.is_property:
                return self.call_internal(m, [], {}, e, self_av=x.clone(acc=None))
            if m is None and a not in ("partition",):
                return self._xr_attr(x.clone(acc=None), a)
            if a == "partition":
                return x.clone(acc="Partition")
            return fresh("SC")
        if x.kind in ("DA", "DS", "XR", "TOP"):
            if x.kind == "TOP" and not x.all_pairs():
                sym = self.repo.resolve_expr(self.mod, e)
                if isinstance(sym, tuple) and sym[0] == "const":
                    cm, ce = sym[1], sym[2]
                    c = self.repo.const(cm, ce)
                    if c is not UNKNOWN and not isinstance(c, (dict, list)):
                        return fresh("SC")
                    return AV.root(f"g:{cm.name}.{a}", "PY" if isinstance(ce, (ast.Dict, ast.List)) else "TOP")
                if isinstance(e.value, ast.Name):
                    base = self.repo.resolve_symbol(self.mod, e.value.id)
                    if isinstance(base, tuple) and base[0] == "const" and base[1].name == "wavespectra.core.attributes" and e.value.id == "attrs":
                        pass
                return fresh("TOP") if a not in ("shape", "size", "ndim", "dtype") else fresh("SC")
            return self._xr_attr(x, a)
        if x.kind == "ND":
            if a in ("T", "flat", "real", "imag", "base"):
                return AV("ND", B=x.B)
            return fresh("SC")
        if x.kind == "PY":
            return fresh("TOP")
        return fresh("SC") if x.kind == "SC" else fresh("TOP")

    def _acc_state_fields(self):
        """Instance attributes ever assigned on this accessor class (other than the wrapped object)."""
        out = set()
        for n in ast.walk(self.cls.node):
            if isinstance(n, ast.Attribute) and isinstance(n.ctx, ast.Store) and isinstance(n.value, ast.Name) \
                    and n.value.id == "self" and n.attr not in ACCESSOR_FIELDS:
                out.add(n.attr)
        return out

    def _acc_member(self, clsname, attr):
        for m in self.repo.modules.values():
            c = m.classes.get(clsname)
            if c is not None and c.name in ACCESSOR_CLASSES:
                return c.methods.get(attr)
        return None

    def _xr_attr(self, x, a):
        if a in ("values", "data", "variable", "_data"):
            return AV("ND", B=x.B | (x.Bc if x.kind != "DA" else EMPTY))
        if a in ("attrs", "encoding"):
            places = x.V if x.kind == "DA" else (x.C if x.kind == "DS" else x.V | x.C)
            return AV("PY", B=places, elem=fresh("SC"))
        if a in ("coords", "data_vars", "variables", "indexes", "xindexes", "_variables", "_coords"):
            return x.clone()
        if a in ("dims", "sizes", "shape", "dtype", "size", "ndim", "name", "nbytes", "chunks", "chunksizes"):
            return fresh("SC")
        if a == "spec":
            return x.clone(acc="SpecDataset" if x.kind == "DS" else ("SpecArray" if x.kind == "DA" else "Spec?"))
        if a in ("loc", "iloc"):
            return x.clone()
        if a in ("dt", "str", "plot", "T", "real", "imag"):
            return self.view(x) if a in ("T", "real", "imag") else self.wherelike(x)
        return self.sub(x, a)

    def inst_field(self, f, x):
        """Field value of a known instance: substitute ctor roots by the constructor actuals."""
        if not x.ctor:
            return f
        return self.subst_av(f, {f"ctor:{x.inst.name}.{k}": v for k, v in x.ctor.items()})

    # -- substitution of roots ----------------------------------------------------------------
    def subst_pairs(self, pairs, bind):
        out = set()
        for (r, rp) in pairs:
            if r in bind:
                a = bind[r]
                if rp == "C":
                    out |= a.C
                elif rp == "V":
                    out |= a.V
                elif rp == "B":
                    out |= a.B | (a.elem.all_pairs() if a.elem is not None else EMPTY)
                    if a.items:
                        for i in a.items:
                            out |= i.all_pairs()
                elif rp == "Bc":
                    out |= a.Bc
                elif rp == "Vc:*":
                    out |= a.vc_all()
                elif rp.startswith("Vc:"):
                    out |= a.vcget(rp[3:])
            else:
                out.add((r, rp))
        return frozenset(out)

    def subst_av(self, v, bind):
        if v is None:
            return None
        sp = lambda p: self.subst_pairs(p, bind)
        return AV(v.kind, sp(v.C), sp(v.V), sp(v.B), sp(v.Bc), {n: sp(p) for n, p in v.vc.items()},
                  self.subst_av(v.elem, bind), [self.subst_av(i, bind) for i in v.items] if v.items else None,
                  v.acc, v.inst, {k: self.subst_av(a, bind) for k, a in v.ctor.items()} if v.ctor else None)

    # -- calls --------------------------------------------------------------------------------
    def ev_Call(self, e):
        return self.call(e)

    def call(self, e):
        fn = e.func
        name = call_name(e)
        # evaluate arguments once
        args = [self.ev(a) for a in e.args]
        kws = {}
        star_kw = []
        for k in e.keywords:
            v = self.ev(k.value)
            if k.arg is None:
                star_kw.append(v)
            else:
                kws[k.arg] = v
        # ---- method call on a value ----
        if isinstance(fn, ast.Attribute):
            recv_e = fn.value
            sym = self.repo.resolve_expr(self.mod, fn)
            if isinstance(sym, FuncInfo) and not self._is_local(recv_e):
                return self.call_internal(sym, args, kws, e, star_kw=star_kw)
            if isinstance(sym, ClassInfo) and not self._is_local(recv_e):
                return self.construct(sym, args, kws, e, star_kw)
            if isinstance(sym, tuple) and sym[0] == "ext" and not self._is_local(recv_e):
                return self.call_external(sym[1], name, args, kws, e, star_kw)
            recv = self.ev(recv_e)
            return self.call_method(recv, recv_e, fn.attr, args, kws, e, star_kw)
        if isinstance(fn, ast.Name):
            if fn.id in self.env:
                fv = self.env[fn.id]
                dunder = fv.inst.methods.get("__call__") if getattr(fv, "inst", None) is not None else None
                if dunder is not None:
                    # calling an instance of a package class:  wp = WavePlot(..); wp()
                    return self.call_internal(dunder, args, kws, e, self_av=fv, star_kw=star_kw)
                self.eng.unresolved += 1
                return self.unknown_call(args, kws, star_kw)
            sym = self.repo.resolve_symbol(self.mod, fn.id)
            if isinstance(sym, FuncInfo):
                return self.call_internal(sym, args, kws, e, star_kw=star_kw)
            if isinstance(sym, ClassInfo):
                return self.construct(sym, args, kws, e, star_kw)
            if isinstance(sym, tuple) and sym[0] == "ext":
                return self.call_external(sym[1], name, args, kws, e, star_kw)
            return self.call_builtin(fn.id, args, kws, e, star_kw)
        # call of a call result / subscript (e.g. globals()[name](...), getattr(x, m)(...))
        f = self.ev(fn)
        dunder = f.inst.methods.get("__call__") if getattr(f, "inst", None) is not None else None
        if dunder is not None:
            return self.call_internal(dunder, args, kws, e, self_av=f, star_kw=star_kw)
        self.eng.unresolved += 1
        r = self.unknown_call(args + [f], kws, star_kw)
        return r

    def _is_local(self, e):
        while isinstance(e, ast.Attribute):
            e = e.value
        return isinstance(e, ast.Name) and e.id in self.env

    def unknown_call(self, args, kws, star_kw):
        out = None
        for a in list(args) + list(kws.values()) + list(star_kw):
            out = join(out, a)
        if out is None:
            return fresh("TOP")
        r = lump(out.all_pairs()) if out.all_pairs() else fresh("TOP")
        return r

    def call_builtin(self, name, args, kws, e, star_kw):
        self.eng.resolved += 1
        if name in ("list", "tuple", "set", "frozenset", "sorted", "reversed"):
            if args:
                return AV("PY", elem=self.iter_elem(args[0], None))
            return AV("PY", elem=None)
        if name == "dict":
            el = None
            for a in args:
                el = join(el, self.iter_elem(a, None) if a.kind == "PY" else a)
            for v in list(kws.values()) + [self.iter_elem(s, None) for s in star_kw]:
                el = join(el, v)
            return AV("PY", elem=el)
        if name in ("zip", "enumerate", "map", "filter", "iter"):
            items = None
            el = None
            if name == "zip":
                return AV("PY", elem=AV("PY", items=[self.iter_elem(a, None) for a in args]))
            if name == "enumerate" and args:
                return AV("PY", elem=AV("PY", items=[fresh("SC"), self.iter_elem(args[0], None)]))
            for a in args:
                el = join(el, self.iter_elem(a, None))
            return AV("PY", elem=el)
        if name == "getattr" and args:
            a = args[0]
            nm = None
            if len(e.args) > 1:
                nm = const_str(self.repo, self.mod, e.args[1])
            if nm is not None:
                fake = ast.Attribute(value=e.args[0], attr=nm, ctx=ast.Load())
                ast.copy_location(fake, e)
                return self.ev_Attribute(fake)
            return a.clone() if a.all_pairs() else fresh("TOP")
        if name == "setattr" and args:
            self.sink(args[0], ("C", "V"), e, "setattr on an object")
            if args[0].kind == "SELF" and self.is_acc and self.fi.name != "__init__":
                self.out.field_writes.append(("<setattr>", self.fi.file, e.lineno, unparse(e)[:140],
                                              bool(len(args) > 2 and args[2].all_pairs()), False))
            elif args[0].kind == "SELF" and self.is_acc:
                self.out.field_writes.append(("__init__:<setattr>", self.fi.file, e.lineno, unparse(e)[:140],
                                              bool(len(args) > 2 and args[2].all_pairs()), False))
            return fresh("SC")
        if name in ("next",) and args:
            return self.iter_elem(args[0], None)
        if name in ("eval", "exec", "globals", "locals", "vars", "__import__"):
            if name == "globals":
                return AV.root(f"g:{self.mod.name}.<globals>", "PY")
            return fresh("TOP")
        if name in ("super",):
            sv = self.env.get("self", fresh("TOP"))
            if self.cls is not None and any(b in ("dict", "list", "set", "OrderedDict", "collections.OrderedDict") for b in self.cls.bases):
                return AV("PY", B=sv.B | sv.C, elem=fresh("TOP"))
            return sv
        return fresh("SC") if name in X.BUILTIN_FRESH or name in ("isinstance", "len") else fresh("TOP")

    def construct(self, cls, args, kws, e, star_kw=()):
        self.eng.resolved += 1
        init = cls.methods.get("__init__")
        ctor = {}
        if init is not None:
            ps = init.params[1:]
            va = init.node.args.vararg.arg if init.node.args.vararg else None
            kwn = init.node.args.kwarg.arg if init.node.args.kwarg else None
            for i, a in enumerate(args):
                if i < len(ps):
                    ctor[ps[i]] = a
                elif va:
                    ctor[f"*{va}"] = join(ctor.get(f"*{va}"), a)
            for k, v in kws.items():
                if k in ps or not kwn:
                    ctor[k] = v
                else:
                    ctor[f"**{kwn}"] = join(ctor.get(f"**{kwn}"), v)
            for s_ in star_kw:
                sv = self.iter_elem(s_, None) if s_.kind in ("PY",) and (s_.elem is not None or s_.items) else lump(s_.all_pairs())
                for p_ in ps:
                    if p_ not in ctor:
                        ctor[p_] = sv
                if kwn:
                    ctor[f"**{kwn}"] = join(ctor.get(f"**{kwn}"), sv)
            # effects of __init__ itself
            self.apply_summary(init, {f"ctor:{cls.name}.{k}": v for k, v in ctor.items()}, e, self_av=None)
        if cls.name in ACCESSOR_CLASSES:
            base = ctor.get("dset") or ctor.get("xarray_obj") or ctor.get("xarray_dset") or (args[0] if args else fresh("TOP"))
            return base.clone(acc=cls.name)
        return AV("OBJ", inst=cls, ctor=ctor)

    def call_internal(self, fi, args, kws, e, self_av=None, star_kw=()):
        self.eng.resolved += 1
        ps = list(fi.params)
        bind = {}
        if fi.cls is not None and "staticmethod" not in fi.decorators:
            ps = ps[1:]
        is_acc_method = bool(fi.cls and fi.cls.name in ACCESSOR_CLASSES)
        is_plugin = fi.cls is None and fi.name.startswith("to_") and fi.module.name.startswith("wavespectra.output.")
        if is_plugin and self_av is not None:
            ps = ps[1:]
        for i, a in enumerate(args):
            if i < len(ps):
                bind[f"p:{ps[i]}"] = a
            else:
                va = fi.node.args.vararg
                if va is not None:
                    bind[f"p:*{va.arg}"] = join(bind.get(f"p:*{va.arg}"), a)
        kwname = fi.node.args.kwarg.arg if fi.node.args.kwarg else None
        for k, v in kws.items():
            if k in ps:
                bind[f"p:{k}"] = v
            elif kwname:
                bind[f"p:**{kwname}"] = join(bind.get(f"p:**{kwname}"), v)
        for s in star_kw:
            sv = self.iter_elem(s, None) if s.kind in ("PY",) and (s.elem is not None or s.items) else lump(s.all_pairs())
            for p in ps:
                if f"p:{p}" not in bind:
                    bind[f"p:{p}"] = sv
            if kwname:
                bind[f"p:**{kwname}"] = join(bind.get(f"p:**{kwname}"), sv)
        for p in ps:
            bind.setdefault(f"p:{p}", fresh("SC"))
        if kwname:
            bind.setdefault(f"p:**{kwname}", fresh("SC"))
        if fi.node.args.vararg is not None:
            bind.setdefault(f"p:*{fi.node.args.vararg.arg}", fresh("SC"))
        if self_av is not None and (is_acc_method or is_plugin or fi.cls is not None):
            bind["self"] = self_av
        elif is_acc_method:
            bind["self"] = fresh("TOP")
        if self_av is not None and fi.cls is not None and not is_acc_method and self_av.ctor:
            for k, v in self_av.ctor.items():
                bind[f"ctor:{fi.cls.name}.{k}"] = v
        return self.apply_summary(fi, bind, e, self_av)

    def apply_summary(self, fi, bind, e, self_av):
        s = self.eng.summ.get(fi.qualname)
        if s is None:
            return fresh("TOP")
        site = f"{self.fi.file}:{getattr(e, 'lineno', 0)} {self.fi.short} -> {fi.short}"
        for gk, eff in s.gsites.items():
            if gk not in self.out.gsites:
                self.out.gsites[gk] = eff.lifted(eff.root, eff.place, site)
        for (r, rp), eff in s.effects.items():
            if r in bind:
                for (r2, rp2) in self.subst_pairs({(r, rp)}, bind):
                    k = (r2, rp2)
                    self.eng.sinks += 1
                    if k not in self.out.effects:
                        self.out.effects[k] = eff.lifted(r2, rp2, site)
                    if r2.startswith("g:"):
                        gk = (eff.file, eff.func, eff.construct, r2)
                        if gk not in self.out.gsites:
                            self.out.gsites[gk] = eff.lifted(r2, rp2, site)
            elif r.startswith("g:") or r.startswith("ctor:") or r == "self":
                if r == "self" and "self" not in bind:
                    continue
                k = (r, rp)
                if k not in self.out.effects:
                    self.out.effects[k] = eff.lifted(r, rp, site)
        for fw in s.field_writes:
            if self_av is not None and self_av.kind == "SELF" and self.is_acc and not fw[0].startswith("__init__:"):
                if self.fi.name == "__init__":
                    self.out.field_writes.append(("__init__:" + fw[0],) + tuple(fw[1:]))
                else:
                    self.out.field_writes.append(fw)
        if s.ret is None:
            return fresh("SC")
        return self.subst_av(s.ret, bind)

    def call_method(self, recv, recv_e, m, args, kws, e, star_kw):
        # accessor hops -------------------------------------------------------------
        if recv.kind == "SELF":
            cls = self.cls
            if self.is_acc:
                fi = cls.methods.get(m)
                if fi is None and cls.name == "SpecDataset":
                    fi = self.repo.plugins().get(m) or self._acc_member("SpecArray", m)
                    if fi is None:
                        return self.call_method(AV.root("self", "DS"), recv_e, m, args, kws, e, star_kw)
                if fi is not None:
                    return self.call_internal(fi, args, kws, e, self_av=AV.root("self", ACCESSOR_CLASSES[cls.name]),
                                              star_kw=star_kw)
            else:
                c = recv.inst or cls
                fi = c.methods.get(m) if c else None
                if fi is None and c is not None:
                    fi = self._inherited(c, m)
                if fi is not None:
                    return self.call_internal(fi, args, kws, e, self_av=recv, star_kw=star_kw)
            self.eng.unresolved += 1
            return self.unknown_call(args, kws, star_kw)
        if recv.inst is not None:
            fi = recv.inst.methods.get(m) or self._inherited(recv.inst, m)
            if fi is not None:
                return self.call_internal(fi, args, kws, e, self_av=recv, star_kw=star_kw)
            if m in X.MUTATING_METHODS:
                # method inherited from a builtin container base (dict / list): mutates the instance itself
                self.sink(recv, ("B", "C"), e, f".{m}() modifies the container in place")
                return fresh("SC")
            self.eng.unresolved += 1
            return self.unknown_call(args, kws, star_kw)
        if recv.acc:
            base = recv.clone(acc=None)
            if recv.acc == "Partition":
                fi = self._acc_member("Partition", m)
            else:
                fi = self._acc_member("SpecArray", m)
                if fi is None:
                    fi = self.repo.plugins().get(m) or self._acc_member("SpecDataset", m)
                    if fi is not None and base.kind not in ("DS",):
                        base = base.clone(kind="DS")
            if fi is not None:
                return self.call_internal(fi, args, kws, e, self_av=base, star_kw=star_kw)
            return self.call_method(base, recv_e, m, args, kws, e, star_kw)
        # plugin function's `self` is typed DS with acc SpecDataset (handled above)
        self.eng.resolved += 1
        return self.ext_method(recv, recv_e, m, args, kws, e, star_kw)

    def _inherited(self, cls, m):
        for b in cls.bases:
            sym = self.repo.resolve_symbol(cls.module, b.split(".")[-1]) if "." not in b else None
            if isinstance(sym, ClassInfo):
                if m in sym.methods:
                    return sym.methods[m]
                r = self._inherited(sym, m)
                if r:
                    return r
        return None

    # ---- library methods ------------------------------------------------------------------------
    def ext_method(self, x, recv_e, m, args, kws, e, star_kw):
        k = x.kind
        inplace = "inplace" in kws and self.repo.const(self.mod, kwarg(e, "inplace")) is not False
        if inplace:
            self.sink(x, ("B", "C"), e, f".{m}(inplace=True) modifies the object")
        # receiver is the attrs/encoding dict of an xarray object: handled through its B place
        if m in X.MUTATING_METHODS:
            if k in ("DA", "DS", "XR"):
                if m == "update":
                    self.sink(x, ("C",), e, "Dataset.update modifies the dataset in place")
                    return fresh("SC")
                if m in ("pop", "clear", "setdefault"):
                    self.sink(x, ("C",), e, f".{m}() on an xarray container")
                    return fresh("TOP")
                if m in ("sort", "fill", "resize", "put", "itemset"):
                    self.sink(x, ("B",), e, f".{m}() modifies the array in place")
                    return fresh("SC")
            elif k == "SC":
                return fresh("SC")
            else:
                if m in ("sort", "fill", "resize", "put", "itemset", "partition", "byteswap", "setflags", "setfield"):
                    if k in ("ND", "PY", "TOP"):
                        self.sink(x, ("B",), e, f".{m}() modifies the array / list in place")
                        return fresh("SC")
                if k in ("PY", "TOP"):
                    self.sink(x, ("B",), e, f".{m}() modifies the container in place")
                    if m in ("append", "add", "insert", "extend", "update", "setdefault") and isinstance(recv_e, ast.Name) and recv_e.id in self.env and k == "PY":
                        add = None
                        for a in list(args) + list(kws.values()):
                            add = join(add, self.iter_elem(a, None) if m in ("extend", "update") and a.kind == "PY" else a)
                        if add is not None:
                            cur = self.env[recv_e.id]
                            self.env[recv_e.id] = cur.clone(elem=join(cur.elem, add) if cur.elem is not None else add)
                    if m in ("pop", "popitem", "setdefault"):
                        return x.elem if x.elem is not None else (lump(x.all_pairs()) if x.all_pairs() else fresh("TOP"))
                    return fresh("SC")
                if k == "ND":
                    self.sink(x, ("B",), e, f".{m}() on an array")
                    return fresh("SC")
        for a in list(args) + list(kws.values()):
            pass
        if k in ("DA", "DS", "XR") or (k == "TOP" and m in X.XR_METHODS and m not in ("get", "items", "values", "keys", "copy", "index", "count", "drop", "rename")):
            cl = X.XR_METHODS.get(m)
            if cl is None:
                if m in ("hs", "tp"):
                    return fresh("DA")
                return x.clone() if x.all_pairs() else fresh(k)
            if cl == X.FRESH:
                return fresh(k if m not in ("to_dict", "tolist", "item", "to_series", "to_dataframe", "to_index") else "TOP")
            if cl == X.ARITH:
                return self.arith([x] + [a for a in args if a.kind in ("DA", "DS", "XR")])
            if cl == "WHERE":
                return self.wherelike(x)
            if cl == X.NEWVARS:
                r = self.newvars(x, "DS" if m == "to_dataset" else None)
                if m in ("assign_coords", "assign"):
                    for a in list(args) + list(kws.values()) + list(star_kw):
                        el = self.iter_elem(a, None) if a.kind == "PY" else a
                        if el is not None:
                            r.Bc = r.Bc | el.B | el.Bc
                return r
            if cl == X.VIEW:
                return self.view(x)
            if cl == X.INDEX:
                return self.index(x, e, m)
            if cl == "COPY":
                deep = kwarg(e, "deep")
                if deep is None and e.args:
                    deep = e.args[0]
                dv = self.repo.const(self.mod, deep) if deep is not None else None
                if dv is True:
                    return fresh(k)
                if deep is None and k == "DA":
                    return fresh(k)
                return self.newvars(x)
            if cl == "RENAME":
                if e.args and isinstance(e.args[0], (ast.Dict, ast.DictComp)) or star_kw or (not e.args and kws):
                    return self.newvars(x)
                if e.args and isinstance(e.args[0], ast.Name) and self.env.get(e.args[0].id, fresh()).kind == "PY":
                    return self.newvars(x)
                if e.args and isinstance(self.repo.const(self.mod, e.args[0]), dict):
                    return self.newvars(x)
                if k in ("DA", "XR", "TOP") and e.args and isinstance(self.repo.const(self.mod, e.args[0]), str):
                    # DataArray.rename(name) is _replace(name=..): a new DataArray around the SAME Variable object (attrs dict and encoding included)
                    return AV("DA" if k == "DA" else k, C=EMPTY, V=x.V, B=x.B, Bc=x.Bc, vc=dict(x.vc))
                return self.view(x)
            if cl == X.SAME:
                return x
        if k == "ND" or (k == "TOP" and (m in X.ND_FRESH or m in X.ND_VIEW)):
            if m in X.ND_FRESH:
                return fresh("ND" if k == "ND" else "TOP")
            if m in X.ND_VIEW:
                return AV(k, B=x.B, C=x.C, V=x.V, Bc=x.Bc, vc=dict(x.vc), elem=x.elem)
            return fresh("ND")
        if k == "PY":
            if m in ("get", "pop", "setdefault"):
                return x.elem if x.elem is not None else fresh("TOP")
            if m in ("items",):
                return AV("PY", elem=AV("PY", items=[fresh("SC"), x.elem if x.elem is not None else fresh("TOP")]))
            if m in ("values",):
                return AV("PY", elem=x.elem)
            if m in ("copy",):
                return AV("PY", elem=x.elem)
            if m in ("keys", "index", "count"):
                return fresh("SC")
            return fresh("TOP")
        if k == "SC":
            return fresh("SC")
        if k == "OBJ":
            return fresh("TOP")
        # unknown receiver, unknown method: result may alias the receiver and arguments
        if m in ("copy",):
            return self.newvars(x)
        if m in ("get",):
            return x.elem if x.elem is not None else (x.clone() if x.all_pairs() else fresh("TOP"))
        if not x.all_pairs():
            return fresh("TOP")
        self.eng.unresolved += 1
        return x.clone()

    # ---- library functions ----------------------------------------------------------------------
    def call_external(self, dotted, name, args, kws, e, star_kw):
        self.eng.resolved += 1
        short = dotted.replace("numpy.", "np.").replace("xarray.", "xr.").replace("pandas.", "pd.")
        outkw = kws.get("out")
        if outkw is not None:
            self.sink(outkw, ("B",), e, "out= argument is written in place")
        if short in X.MUTATING_FUNCS and args:
            self.sink(args[0], ("B",), e, f"{short} modifies its first argument in place")
            return fresh("SC")
        if short in ("xr.apply_ufunc",):
            return self.apply_ufunc(args, kws, e)
        if short in ("np.where", "np.nonzero", "np.flatnonzero", "np.argwhere") and len(args) == 1:
            return AV("PY", items=[fresh("ND")], elem=fresh("ND"))
        if short in ("np.argsort", "np.unique", "np.arange", "np.linspace", "np.zeros", "np.ones", "np.full", "np.empty",
                     "np.append", "np.concatenate", "np.hstack", "np.vstack", "np.stack", "np.array", "np.tile",
                     "np.repeat", "np.zeros_like", "np.ones_like", "np.full_like", "np.empty_like", "np.copy",
                     "np.sort", "np.diff", "np.gradient", "np.cumsum", "np.interp", "np.meshgrid", "np.isnan",
                     "np.genfromtxt", "np.loadtxt", "np.fromfile", "np.isin", "np.digitize",
                     "griddata", "scipy.interpolate.griddata", "interpolate.griddata", "curve_fit", "scipy.optimize.curve_fit"):
            return fresh("ND")
        if short in ("copy.deepcopy",):
            return fresh(args[0].kind if args else "TOP")
        if short in ("copy.copy",):
            return self.newvars(args[0]) if args else fresh("TOP")
        if short in ("xr.concat", "xr.combine_by_coords", "xr.combine_nested", "xr.open_dataset", "xr.open_mfdataset",
                     "xr.open_zarr", "xr.zeros_like", "xr.ones_like", "xr.full_like", "xr.where", "xr.dot",
                     "xr.Dataset.from_dict", "xr.DataArray.from_dict"):
            if short == "xr.where":
                return self.arith([a for a in args])
            kind = "DS" if "dataset" in short.lower() else "XR"
            return fresh(kind)
        if short in X.FUNC_NEWVARS:
            xs = [a for a in list(args) + list(kws.values())]
            r = AV("DS" if short in ("xr.Dataset", "xr.merge") else "DA")
            for a in xs:
                el = a
                if a.kind == "PY":
                    el = self.iter_elem(a, None)
                    if el is None:
                        continue
                    if el.kind == "PY":
                        el = self.iter_elem(el, None) or fresh("SC")
                r.B = r.B | el.B
                r.Bc = r.Bc | el.Bc | el.B
            return r
        if short in X.FUNC_SHARES_ARGS:
            r = None
            for a in args[:1] if short.startswith("np.") else args:
                r = join(r, a)
            if r is None:
                return fresh("TOP")
            if short.startswith("np."):
                return AV("ND", B=r.B | (r.elem.all_pairs() if r.elem is not None and r.kind != "PY" else EMPTY))
            return r.clone()
        if short.startswith("np.") or short.startswith("scipy.") or short.startswith("math.") or short.startswith("pd."):
            # numpy ufuncs applied to xarray objects return xarray objects (ARITH aliasing)
            xs = [a for a in args if a.kind in ("DA", "DS", "XR")]
            if xs:
                return self.arith(xs)
            if any(a.kind == "TOP" and a.all_pairs() for a in args):
                return self.arith(args)
            return fresh("ND" if short.startswith("np.") else "TOP")
        return fresh("TOP")

    def apply_ufunc(self, args, kws, e):
        """The kernel receives views of the arrays: instantiate its summary on the B level of each argument."""
        if e.args:
            kexpr = e.args[0]
            sym = self.repo.resolve_expr(self.mod, kexpr)
            kernels = []
            if isinstance(sym, FuncInfo):
                kernels = [sym]
            elif isinstance(kexpr, ast.Name):
                # local alias bound in branches
                for n in ast.walk(self.fi.node):
                    if isinstance(n, ast.Assign) and any(isinstance(t, ast.Name) and t.id == kexpr.id for t in n.targets):
                        s2 = self.repo.resolve_expr(self.mod, n.value)
                        if isinstance(s2, FuncInfo):
                            kernels.append(s2)
            for kf in kernels:
                ps = kf.params
                bind = {}
                for i, a in enumerate(args[1:]):
                    if i < len(ps):
                        bind[f"p:{ps[i]}"] = AV("ND", B=a.B | a.Bc)
                s = self.eng.summ.get(kf.qualname)
                if s:
                    site = f"{self.fi.file}:{e.lineno} {self.fi.short} -> apply_ufunc({kf.short})"
                    for gk, eff in s.gsites.items():
                        if gk not in self.out.gsites:
                            self.out.gsites[gk] = eff.lifted(eff.root, eff.place, site)
                    for (r, rp), eff in s.effects.items():
                        if r in bind and rp == "B":
                            for k2 in bind[r].B:
                                if k2 not in self.out.effects:
                                    self.out.effects[k2] = eff.lifted(k2[0], k2[1], site)
                        elif r.startswith("g:"):
                            if (r, rp) not in self.out.effects:
                                self.out.effects[(r, rp)] = eff.lifted(r, rp, site)
        xs = [a for a in args[1:] if a.kind in ("DA", "DS", "XR", "TOP")]
        r = self.arith(xs) if xs else fresh("XR")
        ocd = kwarg(e, "output_core_dims")
        n_out = 1
        if ocd is not None:
            v = self.repo.const(self.mod, ocd)
            if isinstance(v, list):
                n_out = len(v)
        if r.kind == "TOP":
            r.kind = "XR"
        if n_out > 1:
            return AV("PY", items=[r.clone() for _ in range(n_out)])
        return r
