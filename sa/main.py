"""vcheck driver: ./vcheck <property id> [--tier quick|thorough] [--explain n]"""
import importlib
import os
import sys
import traceback

sys.path.insert(0, os.path.dirname(os.path.dirname(os.path.abspath(__file__))))

from sa.report import AnalysisError, Report, analysis_error  # noqa: E402


def main(argv):
    if not argv:
        print("usage: vcheck <Cxx|all|selftest> [--tier quick|thorough] [--explain n]")
        return 2
    prop = argv[0]
    tier = os.environ.get("VERIF_TIER", "quick")
    explain = None
    i = 1
    while i < len(argv):
        if argv[i] == "--tier":
            tier = argv[i + 1]; i += 2
        elif argv[i] == "--explain":
            explain = int(argv[i + 1]); i += 2
        else:
            i += 1
    if tier not in ("quick", "thorough"):
        tier = "quick"
    if prop == "all":
        rc = 0
        for n in range(1, 21):
            rc = max(rc, run_one(f"C{n:02d}", tier, None))
        return rc
    if prop == "selftest":
        from selftest import run as st
        return st.main(argv[1:])
    return run_one(prop, tier, explain)


def run_one(prop, tier, explain):
    try:
        mod = importlib.import_module(f"sa.rules.{prop.lower()}")
    except ModuleNotFoundError:
        return analysis_error(prop, tier, "no rules implemented for this property")
    rep = Report(prop, tier)
    try:
        from sa.model import Repo
        repo = Repo()
        explanation = mod.run(repo, rep, tier)
        if tier == "thorough":
            from sa import thorough
            thorough.extras(prop, repo, rep)
            thorough.variant_stability(prop, rep, None)
            import json as _json
            kf = [k for k in _json.load(open(os.path.join(os.path.dirname(os.path.dirname(os.path.abspath(__file__))), "known_findings.json"))).get("findings", [])
                  if k.get("property") == prop]
            newf = [f for f in rep.findings if f.key not in {k["key"] for k in kf}]
            base = (1 if newf else 0, len([f for f in rep.findings if f.key in {k["key"] for k in kf}]))
            thorough.corpus_stability(prop, rep, base)
        rc = rep.finish(explanation, level=getattr(mod, "LEVEL", "other"))
        if explain is not None:
            fs = [f for f in rep.findings]
            if 0 <= explain < len(fs):
                import json
                print(json.dumps(fs[explain].as_dict(), indent=1))
        return rc
    except AnalysisError as e:
        return analysis_error(prop, tier, str(e))
    except Exception as e:  # analyser crash is never a violation and never a pass
        traceback.print_exc()
        return analysis_error(prop, tier, f"analyser crashed: {type(e).__name__}: {e}")


if __name__ == "__main__":
    sys.exit(main(sys.argv[1:]))
