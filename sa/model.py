"""E0 - repository model: modules, symbols, imports, constants, call resolution.

Pure `ast`; never imports wavespectra, numpy or xarray.  Everything is re-parsed from the
repository's *current* working tree on every run.
"""
import ast
import math
import os

from .report import AnalysisError

REPO = os.environ.get("VSA_REPO", "/repo")
PKG = "wavespectra"


class _Unknown:
    def __repr__(self):
        return "UNKNOWN"

    def __bool__(self):
        return False


UNKNOWN = _Unknown()


def load_yaml(path):
    try:
        import yaml  # PyYAML is a dependency of the repository itself

        with open(path) as fh:
            return yaml.load(fh, yaml.SafeLoader)
    except ImportError:
        return _mini_yaml(path)


def _mini_yaml(path):
    """Reader for the YAML subset used by attributes.yml / ww3.yml (maps, scalars, &anchor/*alias)."""
    anchors, root = {}, {}
    stack = [(-1, root)]
    for raw in open(path):
        line = raw.split(" #")[0].rstrip()
        if not line.strip() or line.lstrip().startswith("#"):
            continue
        indent = len(line) - len(line.lstrip())
        key, _, val = line.strip().partition(":")
        key, val = key.strip(), val.strip()
        if key.startswith("*"):
            key = anchors[key[1:]]
        while stack and stack[-1][0] >= indent:
            stack.pop()
        parent = stack[-1][1]
        if val == "":
            parent[key] = {}
            stack.append((indent, parent[key]))
            continue
        if val.startswith("&"):
            name, _, val = val.partition(" ")
            anchors[name[1:]] = val.strip()
            val = val.strip()
        if val.startswith("*"):
            val = anchors[val[1:]]
        if len(val) >= 2 and val[0] == val[-1] and val[0] in "\"'":
            val = val[1:-1]
        else:
            try:
                val = int(val)
            except ValueError:
                try:
                    val = float(val)
                except ValueError:
                    pass
        parent[key] = val
    return root


class AttrView(dict):
    """dict with attribute access, mirroring wavespectra.core.attributes.AttrDict for const-eval."""

    def __getattr__(self, k):
        try:
            v = self[k]
        except KeyError:
            raise AttributeError(k)
        return AttrView(v) if isinstance(v, dict) and not isinstance(v, AttrView) else v


class FuncInfo:
    def __init__(self, module, node, cls=None):
        self.module = module
        self.node = node
        self.cls = cls
        self.name = node.name
        self.qualname = f"{module.name}.{cls.name + '.' if cls else ''}{node.name}"
        self.short = f"{cls.name + '.' if cls else ''}{node.name}"
        self.decorators = [ast.unparse(d) for d in node.decorator_list]
        self.is_property = any(d in ("property", "cached_property", "functools.cached_property") for d in self.decorators)

    @property
    def params(self):
        a = self.node.args
        return [x.arg for x in a.posonlyargs + a.args + a.kwonlyargs]

    @property
    def file(self):
        return self.module.relpath

    def __repr__(self):
        return f"<Func {self.qualname}>"


class ClassInfo:
    def __init__(self, module, node):
        self.module = module
        self.node = node
        self.name = node.name
        self.qualname = f"{module.name}.{node.name}"
        self.methods = {}
        self.bases = [ast.unparse(b) for b in node.bases]
        self.decorators = [ast.unparse(d) for d in node.decorator_list]

    def __repr__(self):
        return f"<Class {self.qualname}>"


_LOG_ROOTS = {"logger", "logging", "log", "LOGGER", "_logger"}


def _is_noise(st, first):
    """Statements that cannot affect any property: a bare constant expression that is not a docstring, and calls on a logger
    (`logger.debug(...)`, `logging.info(...)`, `logging.getLogger(..).warning(...)`).  They are dropped from statement lists
    before any rule runs so that no rule depends on statement adjacency / positions across a log line."""
    if not isinstance(st, ast.Expr):
        return False
    v = st.value
    if isinstance(v, ast.Constant):
        return not (first and isinstance(v.value, str))
    if isinstance(v, ast.Call) and isinstance(v.func, ast.Attribute) and v.func.attr in ("debug", "info", "warning", "error", "critical", "exception"):
        r = v.func.value
        while isinstance(r, (ast.Attribute, ast.Call)):
            r = r.value if isinstance(r, ast.Attribute) else r.func
        return isinstance(r, ast.Name) and r.id in _LOG_ROOTS
    return False


def _drop_noise(tree):
    for node in ast.walk(tree):
        for f in ("body", "orelse", "finalbody"):
            lst = getattr(node, f, None)
            if isinstance(lst, list) and lst and isinstance(lst[0], ast.stmt):
                isdef = isinstance(node, (ast.FunctionDef, ast.AsyncFunctionDef, ast.ClassDef, ast.Module))
                kept = [st for i, st in enumerate(lst) if not _is_noise(st, first=(i == 0 and isdef and f == "body"))]
                if not kept:
                    kept = [ast.copy_location(ast.Pass(), lst[0])]
                lst[:] = kept


def _canon_compare(tree):
    """E0 normalisation: a single `a > b` / `a >= b` is stored as `b < a` / `b <= a` (rules see one orientation only)."""
    for n in ast.walk(tree):
        if isinstance(n, ast.Compare) and len(n.ops) == 1 and isinstance(n.ops[0], (ast.Gt, ast.GtE)):
            n.left, n.comparators = n.comparators[0], [n.left]
            n.ops = [ast.Lt() if isinstance(n.ops[0], ast.Gt) else ast.LtE()]
    # `not a == b` is stored as `a != b` (likewise in / is): one spelling of a negated equality / membership test
    flip = {ast.Is: ast.IsNot, ast.IsNot: ast.Is, ast.Eq: ast.NotEq, ast.NotEq: ast.Eq, ast.In: ast.NotIn, ast.NotIn: ast.In}
    for n in ast.walk(tree):
        for f, v in ast.iter_fields(n):
            vs = v if isinstance(v, list) else [v]
            for i, x in enumerate(vs):
                if isinstance(x, ast.UnaryOp) and isinstance(x.op, ast.Not) and isinstance(x.operand, ast.Compare) \
                        and len(x.operand.ops) == 1 and type(x.operand.ops[0]) in flip:
                    c = x.operand
                    c.ops = [flip[type(c.ops[0])]()]
                    if isinstance(v, list):
                        v[i] = c
                    else:
                        setattr(n, f, c)


KNOWN_GLOBALS = frozenset("""CBAR_TICKS D2R DEFAULTS DEFAULT_DIRS DEFAULT_FREQS E2V HEADER_REGEX_STR HERE IPI LOG_CONTOUR_LEVELS LOG_FACTOR MAPPING
METADATA PARAMETERS_CSV PARAMETERS_JSON R2D RADII_FREQ_TICKS_LIN RADII_FREQ_TICKS_LOG RADII_PER_TICKS_LIN RADII_PER_TICKS_LOG SPECTRAL STATS
SUPPORTED_KIND TIME_UNITS VARIABLES VAR_ATTRIBUTES __version__ here logger to_keep""".split())


def _const_expr(v, depth=0):
    """Is v a constant expression (numbers, strings, pi, arithmetic on them, tuples / lists / dicts of them)?"""
    if depth > 6:
        return False
    if isinstance(v, ast.Constant):
        return type(v.value) in (int, float, str, bool) or v.value is None
    if isinstance(v, ast.UnaryOp) and isinstance(v.op, (ast.USub, ast.UAdd)):
        return _const_expr(v.operand, depth + 1)
    if isinstance(v, ast.BinOp) and isinstance(v.op, (ast.Add, ast.Sub, ast.Mult, ast.Div, ast.Pow)):
        return _const_expr(v.left, depth + 1) and _const_expr(v.right, depth + 1)
    if isinstance(v, ast.Attribute) and v.attr in ("pi", "e") and isinstance(v.value, ast.Name) and v.value.id in ("np", "numpy", "math"):
        return True
    if isinstance(v, (ast.Tuple, ast.List)):
        return all(_const_expr(x, depth + 1) for x in v.elts)
    if isinstance(v, ast.Dict):
        return all(k is not None and _const_expr(k, depth + 1) and _const_expr(x, depth + 1) for k, x in zip(v.keys, v.values))
    return False


def negate(t):
    """Logical negation of a test in negation normal form for single comparisons (is / is not, == / !=, in / not in, < / >=)."""
    if isinstance(t, ast.UnaryOp) and isinstance(t.op, ast.Not):
        return t.operand
    if isinstance(t, ast.Compare) and len(t.ops) == 1:
        flip = {ast.Is: ast.IsNot, ast.IsNot: ast.Is, ast.Eq: ast.NotEq, ast.NotEq: ast.Eq, ast.In: ast.NotIn, ast.NotIn: ast.In}
        o = type(t.ops[0])
        if o in flip:
            return ast.copy_location(ast.Compare(left=t.left, ops=[flip[o]()], comparators=t.comparators), t)
    return ast.copy_location(ast.UnaryOp(op=ast.Not(), operand=t), t)


def _canon_continue(tree):
    """E0 normalisation (loop analogue of the guard-clause rule):  inside a loop body
           if c: S; continue          ==      if c: S
           REST                               else: REST
    and with S empty                  ==      if not c: REST."""
    for lp in [n for n in ast.walk(tree) if isinstance(n, (ast.For, ast.While, ast.AsyncFor))]:
        changed = True
        guard = 0
        while changed and guard < 20:
            changed = False
            guard += 1
            b = lp.body
            for i, st in enumerate(b[:-1]):
                if isinstance(st, ast.If) and not st.orelse and st.body and isinstance(st.body[-1], ast.Continue):
                    rest = b[i + 1:]
                    pre = st.body[:-1]
                    if any(isinstance(x, (ast.Continue, ast.Break)) for s_ in pre for x in ast.walk(s_)):
                        continue
                    if pre:
                        st.body = pre
                        st.orelse = rest
                    else:
                        st.test = negate(st.test)
                        st.body = rest
                    del b[i + 1:]
                    changed = True
                    break


def _canon_ifexp(tree):
    """E0 normalisation:  `T = A if c else B`  (and `return A if c else B`, `T op= A if c else B`) is stored as the statement
    `if c: T = A  else: T = B` - a two-way decision between two values has one spelling, the If statement.  Exact: the test is
    evaluated once, then only the chosen operand; a subscript / attribute target is evaluated after the value in both forms,
    so the rewrite is applied to those only when the target expression has no call in it."""
    def split(st):
        v = st.value
        if not isinstance(v, ast.IfExp):
            return None
        if isinstance(st, ast.Assign):
            if len(st.targets) != 1 or any(isinstance(x, ast.Call) for x in ast.walk(st.targets[0])):
                return None
        elif isinstance(st, (ast.AugAssign, ast.AnnAssign)):
            if any(isinstance(x, ast.Call) for x in ast.walk(st.target)):
                return None
        def arm(val):
            c = _clone_stmt(st)
            c.value = val
            sub = split(c)
            return [sub] if sub is not None else [c]
        return ast.copy_location(ast.If(test=v.test, body=arm(v.body), orelse=arm(v.orelse)), st)
    for n in ast.walk(tree):
        for fld in ("body", "orelse", "finalbody"):
            b = getattr(n, fld, None)
            if not isinstance(b, list):
                continue
            for i, st in enumerate(b):
                if isinstance(st, (ast.Assign, ast.Return, ast.AugAssign, ast.AnnAssign)) and st.value is not None:
                    r = split(st)
                    if r is not None:
                        b[i] = r


def _clone_stmt(st):
    import copy
    c = copy.copy(st)
    if isinstance(st, ast.Assign):
        c.targets = [copy.deepcopy(t) for t in st.targets]
    elif isinstance(st, (ast.AugAssign, ast.AnnAssign)):
        c.target = copy.deepcopy(st.target)
    return c


def _canon_signs(tree):
    """E0 normalisation: `a + (-c)` is `a - c` and `a - (-c)` is `a + c` for a numeric literal c (what folding a table column of signed offsets leaves)."""
    n_ = 0
    for n in ast.walk(tree):
        if isinstance(n, ast.BinOp) and isinstance(n.op, (ast.Add, ast.Sub)):
            r = n.right
            c = None
            if isinstance(r, ast.UnaryOp) and isinstance(r.op, ast.USub) and isinstance(r.operand, ast.Constant) and isinstance(r.operand.value, (int, float)) \
                    and not isinstance(r.operand.value, bool):
                c = r.operand
            elif isinstance(r, ast.Constant) and isinstance(r.value, (int, float)) and not isinstance(r.value, bool) and r.value < 0:
                c = ast.copy_location(ast.Constant(value=-r.value), r)
            if c is not None:
                n.right = c
                n.op = ast.Sub() if isinstance(n.op, ast.Add) else ast.Add()
                n_ += 1
    return n_


def _canon_not_else(tree):
    """E0 normalisation:  `if not c: A else: B`  is stored as  `if c: B else: A`  (a two-way decision has one spelling; elif chains untouched)."""
    elifs = set()
    for n in ast.walk(tree):
        if isinstance(n, ast.If) and len(n.orelse) == 1 and isinstance(n.orelse[0], ast.If):
            elifs.add(id(n.orelse[0]))
    for n in ast.walk(tree):
        if id(n) in elifs:
            continue
        if isinstance(n, ast.If) and n.orelse and isinstance(n.test, ast.UnaryOp) and isinstance(n.test.op, ast.Not) \
                and not (len(n.orelse) == 1 and isinstance(n.orelse[0], ast.If)) and not (len(n.body) == 1 and isinstance(n.body[0], ast.If) and n.body[0].orelse):
            n.test = n.test.operand
            n.body, n.orelse = n.orelse, n.body
        elif isinstance(n, ast.If) and n.orelse and isinstance(n.test, ast.Compare) and len(n.test.ops) == 1 \
                and isinstance(n.test.ops[0], (ast.NotEq, ast.NotIn, ast.IsNot)) \
                and not (len(n.orelse) == 1 and isinstance(n.orelse[0], ast.If)) and not (len(n.body) == 1 and isinstance(n.body[0], ast.If) and n.body[0].orelse):
            # `if a != b: A else: B` == `if a == b: B else: A` (same for `not in`, `is not`): the negated comparison is a `not`
            n.test.ops = [{ast.NotEq: ast.Eq, ast.NotIn: ast.In, ast.IsNot: ast.Is}[type(n.test.ops[0])]()]
            n.body, n.orelse = n.orelse, n.body
        elif isinstance(n, ast.IfExp) and isinstance(n.test, ast.UnaryOp) and isinstance(n.test.op, ast.Not):
            n.test = n.test.operand
            n.body, n.orelse = n.orelse, n.body


def _canon_guard_tail(tree):
    """E0 normalisation:   if c: return E ; S ; return E      ==      if not c: S ; return E
    (an early return that duplicates the function's final return, S free of other exits)."""
    for fn in ast.walk(tree):
        if not isinstance(fn, (ast.FunctionDef, ast.AsyncFunctionDef)):
            continue
        b = fn.body
        if len(b) < 3 or not isinstance(b[-1], ast.Return) or b[-1].value is None:
            continue
        tail = ast.dump(b[-1].value)
        for i, st in enumerate(b[:-1]):
            if isinstance(st, ast.If) and not st.orelse and len(st.body) == 1 and isinstance(st.body[0], ast.Return) and st.body[0].value is not None \
                    and ast.dump(st.body[0].value) == tail:
                mid = b[i + 1:-1]
                if not mid or any(isinstance(x, (ast.Return, ast.Yield, ast.YieldFrom)) for m_ in mid for x in ast.walk(m_)):
                    continue
                new = ast.copy_location(ast.If(test=negate(st.test), body=mid, orelse=[]), st)
                fn.body = b[:i] + [new, b[-1]]
                break


def _canon_loop_unpack(tree):
    """E0 normalisation:  `for v in X: (a, b) = v; REST`  is stored as  `for (a, b) in X: REST`  when v is read nowhere else in the
    function (likewise when v is one element of a tuple target: `for i, v in enumerate(X)`).  The only difference is the binding of v."""
    for fn in [n for n in ast.walk(tree) if isinstance(n, (ast.FunctionDef, ast.AsyncFunctionDef))]:
        loads = {}
        for x in ast.walk(fn):
            if isinstance(x, ast.Name) and isinstance(x.ctx, ast.Load):
                loads[x.id] = loads.get(x.id, 0) + 1
        for lp in [n for n in ast.walk(fn) if isinstance(n, (ast.For, ast.AsyncFor))] * 3:       # several leading unpackings move one after the other
            if not lp.body or not isinstance(lp.body[0], ast.Assign) or len(lp.body) < 2:
                continue
            st = lp.body[0]
            if len(st.targets) != 1 or not isinstance(st.targets[0], (ast.Tuple, ast.List)) or not isinstance(st.value, ast.Name):
                continue
            if not all(isinstance(e, ast.Name) for e in st.targets[0].elts):
                continue
            v = st.value.id
            if loads.get(v, 0) != 1:
                continue
            slots = [lp.target] if isinstance(lp.target, ast.Name) else list(lp.target.elts) if isinstance(lp.target, (ast.Tuple, ast.List)) else []
            hit = [e for e in slots if isinstance(e, ast.Name) and e.id == v]
            if len(hit) != 1:
                continue
            tup = ast.copy_location(ast.Tuple(elts=st.targets[0].elts, ctx=ast.Store()), hit[0])
            if lp.target is hit[0]:
                lp.target = tup
            else:
                lp.target.elts[lp.target.elts.index(hit[0])] = tup
            del lp.body[0]
            fn._normalised_away = getattr(fn, "_normalised_away", set()) | {v}


def _canon_loops(tree):
    """E0 normalisation of two list idioms into the loop they abbreviate:
         L.extend(e for t in it) / L.extend([e for t in it])   ->   for t in it: L.append(e)
         L = [e for t in it]                                      ->   L = [] ; for t in it: L.append(e)
       (single generator, no condition).  The only difference is that the loop variable stays bound afterwards."""
    def loop(listname, comp, at):
        g = comp.generators[0]
        call = ast.Call(func=ast.Attribute(value=ast.Name(id=listname, ctx=ast.Load()), attr="append", ctx=ast.Load()), args=[comp.elt], keywords=[])
        f = ast.For(target=g.target, iter=g.iter, body=[ast.Expr(value=call)], orelse=[])
        for n in ast.walk(f):
            if not hasattr(n, "lineno"):
                ast.copy_location(n, at)
        for n in ast.walk(g.target):
            if isinstance(n, ast.Name):
                n.ctx = ast.Store()
        return f

    def simple(c):
        return isinstance(c, (ast.ListComp, ast.GeneratorExp)) and len(c.generators) == 1 and not c.generators[0].ifs and not c.generators[0].is_async

    def fix(stmts, in_func):
        out = []
        for st in stmts:
            for f in ("body", "orelse", "finalbody"):
                v = getattr(st, f, None)
                if isinstance(v, list) and v and isinstance(v[0], ast.stmt):
                    setattr(st, f, fix(v, in_func or isinstance(st, (ast.FunctionDef, ast.AsyncFunctionDef))))
            if isinstance(st, (ast.FunctionDef, ast.AsyncFunctionDef, ast.ClassDef)) or not in_func:
                out.append(st)
                continue
            if isinstance(st, ast.Expr) and isinstance(st.value, ast.Call) and isinstance(st.value.func, ast.Attribute) and st.value.func.attr == "extend" \
                    and isinstance(st.value.func.value, ast.Name) and len(st.value.args) == 1 and not st.value.keywords and simple(st.value.args[0]):
                out.append(loop(st.value.func.value.id, st.value.args[0], st))
                continue
            if isinstance(st, ast.Assign) and len(st.targets) == 1 and isinstance(st.targets[0], ast.Name) and isinstance(st.value, ast.ListComp) and simple(st.value) \
                    and not any(isinstance(x, ast.Name) and x.id == st.targets[0].id for x in ast.walk(st.value)):
                empty = ast.copy_location(ast.Assign(targets=[st.targets[0]], value=ast.copy_location(ast.List(elts=[], ctx=ast.Load()), st)), st)
                out.append(empty)
                out.append(loop(st.targets[0].id, st.value, st))
                continue
            out.append(st)
        return out
    tree.body = fix(tree.body, False)
    ast.fix_missing_locations(tree)


def _module_literals(tree):
    """Module-level names bound exactly once, at top level, to a numeric literal (never rebound, never declared global)."""
    counts, vals = {}, {}
    for st in tree.body:
        tg = []
        if isinstance(st, ast.Assign):
            tg = [t for t in st.targets]
        elif isinstance(st, (ast.AugAssign, ast.AnnAssign)):
            tg = [st.target]
        for t in tg:
            for n in ast.walk(t):
                if isinstance(n, ast.Name):
                    counts[n.id] = counts.get(n.id, 0) + 1
        if isinstance(st, ast.Assign) and len(st.targets) == 1 and isinstance(st.targets[0], ast.Name):
            v = st.value
            neg = isinstance(v, ast.UnaryOp) and isinstance(v.op, ast.USub)
            c = v.operand if neg else v
            if isinstance(c, ast.Constant) and type(c.value) in (int, float):
                vals[st.targets[0].id] = v
            elif st.targets[0].id not in KNOWN_GLOBALS and not st.targets[0].id.startswith("__") and _const_expr(v):
                # constants introduced after the rules were written (hoisted literals, tables, format strings): same program as the literal
                # - provided the object cannot be modified through the name: immutable values always; a list / dict only when every use
                # in this module hands it to a call as an argument, iterates over it or tests membership (a module-level table that is
                # written is persistent state, which C18 must keep seeing)
                nm_ = st.targets[0].id
                mutable = any(isinstance(x, (ast.List, ast.Dict, ast.Set)) for x in ast.walk(v))
                if mutable:
                    par = {}
                    for n_ in ast.walk(tree):
                        for c_ in ast.iter_child_nodes(n_):
                            par[id(c_)] = n_
                    ok_ = True
                    for n_ in ast.walk(tree):
                        if isinstance(n_, ast.Name) and n_.id == nm_ and isinstance(n_.ctx, ast.Load):
                            p_ = par.get(id(n_))
                            readonly = (isinstance(p_, ast.Call) and n_ in p_.args) or (isinstance(p_, ast.keyword)) or \
                                (isinstance(p_, (ast.For, ast.comprehension)) and p_.iter is n_) or \
                                (isinstance(p_, ast.Compare) and n_ in p_.comparators and isinstance(p_.ops[0], (ast.In, ast.NotIn)))
                            if not readonly:
                                ok_ = False
                    if not ok_:
                        continue
                vals[nm_] = v
    for n in ast.walk(tree):
        if isinstance(n, (ast.Global, ast.Nonlocal)):
            for x in n.names:
                counts[x] = 99
        if isinstance(n, (ast.For, ast.comprehension)) or isinstance(n, ast.With):
            pass
    # any other store to the name anywhere at module level (for targets, with, imports) disqualifies it
    for st in tree.body:
        if not isinstance(st, (ast.FunctionDef, ast.AsyncFunctionDef, ast.ClassDef, ast.Assign)):
            for n in ast.walk(st):
                if isinstance(n, ast.Name) and isinstance(n.ctx, ast.Store):
                    counts[n.id] = 99
    return {k: v for k, v in vals.items() if counts.get(k) == 1}


class _InlineLits(ast.NodeTransformer):
    """Constant propagation of single-assignment numeric module constants into function bodies (E0 normalisation): a literal
    hoisted into a module constant, here or in a module it is imported from, is the same program for every rule."""

    def __init__(self, lits):
        self.lits = lits
        self.shadow = [set()]

    def _fn(self, fn):
        a = fn.args
        sh = {x.arg for x in a.posonlyargs + a.args + a.kwonlyargs}
        if a.vararg:
            sh.add(a.vararg.arg)
        if a.kwarg:
            sh.add(a.kwarg.arg)
        body = fn.body if isinstance(fn.body, list) else [fn.body]
        for b in body:
            for n in ast.walk(b):
                if isinstance(n, ast.Name) and isinstance(n.ctx, (ast.Store, ast.Del)):
                    sh.add(n.id)
                elif isinstance(n, (ast.Import, ast.ImportFrom)):
                    sh |= {(x.asname or x.name).split(".")[0] for x in n.names}
        self.shadow.append(self.shadow[-1] | sh)
        self.generic_visit(fn)
        self.shadow.pop()
        return fn

    visit_FunctionDef = visit_AsyncFunctionDef = visit_Lambda = _fn

    def visit_Name(self, n):
        if isinstance(n.ctx, ast.Load) and len(self.shadow) > 1 and n.id in self.lits and n.id not in self.shadow[-1]:
            from .inline import _clone
            new = _clone(self.lits[n.id])
            for x in ast.walk(new):
                ast.copy_location(x, n)
            return new
        return n


def _canon_while(tree):
    """E0 normalisation:  `i = a;  while i < b: BODY; i += 1`  is stored as  `for i in range(a, b): BODY`  when BODY neither rebinds i nor
    contains `continue`, and i is not read after the loop (the two forms differ only in the final value of i)."""
    for fn in [n for n in ast.walk(tree) if isinstance(n, (ast.FunctionDef, ast.AsyncFunctionDef))]:
        for holder in ast.walk(fn):
            for fld in ("body", "orelse", "finalbody"):
                blk = getattr(holder, fld, None)
                if not isinstance(blk, list):
                    continue
                k = 1
                while k < len(blk):
                    w, init = blk[k], blk[k - 1]
                    if isinstance(w, ast.While) and not w.orelse and isinstance(init, ast.Assign) and len(init.targets) == 1 and isinstance(init.targets[0], ast.Name) \
                            and isinstance(w.test, ast.Compare) and len(w.test.ops) == 1 and isinstance(w.test.ops[0], (ast.Lt, ast.LtE)) \
                            and isinstance(w.test.left, ast.Name) and w.test.left.id == init.targets[0].id and w.body:
                        v = init.targets[0].id
                        last = w.body[-1]
                        inc = isinstance(last, ast.AugAssign) and isinstance(last.op, ast.Add) and isinstance(last.target, ast.Name) and last.target.id == v \
                            and isinstance(last.value, ast.Constant) and last.value.value == 1
                        inc = inc or (isinstance(last, ast.Assign) and isinstance(last.targets[0], ast.Name) and last.targets[0].id == v and
                                      isinstance(last.value, ast.BinOp) and isinstance(last.value.op, ast.Add) and
                                      ast.unparse(last.value.left) == v and isinstance(last.value.right, ast.Constant) and last.value.right.value == 1)
                        rest = w.body[:-1]
                        rebinds = any(isinstance(x, ast.Name) and x.id == v and isinstance(x.ctx, ast.Store) for b in rest for x in ast.walk(b))
                        jumps = any(isinstance(x, ast.Continue) for b in rest for x in ast.walk(b))
                        bound_names = {x.id for x in ast.walk(w.test.comparators[0]) if isinstance(x, ast.Name)}
                        bound_changes = any(isinstance(x, ast.Name) and x.id in bound_names and isinstance(x.ctx, ast.Store) for b in w.body for x in ast.walk(b))
                        after = any(isinstance(x, ast.Name) and x.id == v and isinstance(x.ctx, ast.Load) and x.lineno > w.end_lineno for x in ast.walk(fn))
                        if inc and rest and not rebinds and not jumps and not bound_changes and not after:
                            hi = w.test.comparators[0]
                            if isinstance(w.test.ops[0], ast.LtE):
                                hi = ast.BinOp(left=hi, op=ast.Add(), right=ast.Constant(value=1))
                            rng = ast.Call(func=ast.Name(id="range", ctx=ast.Load()), args=[init.value, hi], keywords=[])
                            loop = ast.For(target=ast.Name(id=v, ctx=ast.Store()), iter=rng, body=rest, orelse=[], type_comment=None)
                            ast.copy_location(loop, w)
                            ast.fix_missing_locations(loop)
                            blk[k - 1:k + 1] = [loop]
                            continue
                    k += 1


class _OperatorCalls(ast.NodeTransformer):
    """E0 normalisation: operator.sub(a, b) is a - b (what a parameterised helper taking `operator.add` / `operator.sub` leaves behind once
    it is inlined)."""
    BIN = {"add": ast.Add, "sub": ast.Sub, "mul": ast.Mult, "truediv": ast.Div, "floordiv": ast.FloorDiv, "mod": ast.Mod, "pow": ast.Pow,
           "and_": ast.BitAnd, "or_": ast.BitOr, "xor": ast.BitXor}
    CMP = {"lt": ast.Lt, "le": ast.LtE, "gt": ast.Gt, "ge": ast.GtE, "eq": ast.Eq, "ne": ast.NotEq}

    def visit_Call(self, n):
        self.generic_visit(n)
        f = n.func
        if isinstance(f, ast.Attribute) and isinstance(f.value, ast.Name) and f.value.id == "operator" and not n.keywords:
            if f.attr in self.BIN and len(n.args) == 2:
                return ast.copy_location(ast.BinOp(left=n.args[0], op=self.BIN[f.attr](), right=n.args[1]), n)
            if f.attr in self.CMP and len(n.args) == 2:
                return ast.copy_location(ast.Compare(left=n.args[0], ops=[self.CMP[f.attr]()], comparators=[n.args[1]]), n)
            if f.attr == "neg" and len(n.args) == 1:
                return ast.copy_location(ast.UnaryOp(op=ast.USub(), operand=n.args[0]), n)
        return n


class _PipeAndDict(ast.NodeTransformer):
    """E0 normalisation:  `x.pipe(f, a, k=v)` is `f(x, a, k=v)` (f a plain name: xarray / pandas `pipe` with a callable), and
    `dict(k=v, ..)` is the display `{"k": v, ..}`."""
    def visit_Call(self, n):
        self.generic_visit(n)
        f = n.func
        if isinstance(f, ast.Attribute) and f.attr == "pipe" and n.args and isinstance(n.args[0], ast.Name) \
                and not any(isinstance(a, ast.Starred) for a in n.args):
            return ast.copy_location(ast.Call(func=n.args[0], args=[f.value] + n.args[1:], keywords=n.keywords), n)
        if isinstance(f, ast.Name) and f.id == "dict" and not n.args and n.keywords and all(k.arg is not None for k in n.keywords):
            return ast.copy_location(ast.Dict(keys=[ast.copy_location(ast.Constant(value=k.arg), k.value) for k in n.keywords],
                                              values=[k.value for k in n.keywords]), n)
        return n


def _scope_functions(tree, modname):
    """{scope qualname: {function name: number of parameters}} for module level and each class."""
    out = {}

    def visit(body, prefix):
        d = out.setdefault(prefix, {})
        for n in body:
            if isinstance(n, (ast.FunctionDef, ast.AsyncFunctionDef)):
                a = n.args
                d[n.name] = len(a.posonlyargs + a.args + a.kwonlyargs) + bool(a.vararg) + bool(a.kwarg)
            elif isinstance(n, ast.ClassDef):
                visit(n.body, f"{prefix}.{n.name}")
    visit(tree.body, modname)
    return out


def detect_renames(trees):
    """E0 normalisation: a PRIVATE function / method that existed when the rules were written is missing from its scope while a function that
    did not exist then sits in the same scope with the same number of parameters - a rename (with all call sites).  -> {new bare name: old
    bare name}; applied to definitions and every reference, so rules keep finding their anchors.  Only unambiguous pairs (one candidate per
    arity in the scope; the new name used nowhere in the pinned code base) are undone."""
    from .inline import PIN_FUNCS
    PARAM_RENAMES.clear()
    pinned_by_scope = {}
    pinned_names = set()
    for q, params in PIN_FUNCS.items():
        scope, nm = q.rsplit(".", 1)
        pinned_by_scope.setdefault(scope, {})[nm] = len(params)
        pinned_names.add(nm)
    ren = {}
    for modname, tree in trees.items():
        for scope, present in _scope_functions(tree, modname).items():
            pinned = pinned_by_scope.get(scope, {})
            missing = {n: a for n, a in pinned.items() if n not in present and n.startswith("_") and not n.startswith("__")}
            new = {n: a for n, a in present.items() if n not in pinned and n not in pinned_names}
            import difflib
            pairs = {}
            for old, ar in missing.items():
                cands = [n for n, a in new.items() if a == ar]
                same_ar_missing = [m_ for m_, a in missing.items() if a == ar]
                if len(cands) == 1 and len(same_ar_missing) == 1:
                    pairs[old] = cands[0]
                elif cands and len(cands) == len(same_ar_missing):
                    # several functions of the same arity renamed at once: pair them by name similarity when that is unambiguous
                    score = {(m_, c_): difflib.SequenceMatcher(None, m_, c_).ratio() for m_ in same_ar_missing for c_ in cands}
                    best = max(cands, key=lambda c_: score[(old, c_)])
                    if all(score[(old, best)] > score[(m_, best)] for m_ in same_ar_missing if m_ != old) and \
                            all(score[(old, best)] > score[(old, c_)] for c_ in cands if c_ != best) and score[(old, best)] >= 0.5:
                        pairs[old] = best
            for old, ar in missing.items():
                if old not in pairs or pairs[old] in ren:
                    continue
                cands = [pairs[old]]
                if True:
                    ren[cands[0]] = old
                    # the parameters of a renamed function may have been renamed with it: restore them by position
                    newdef = next((n for n in ast.walk(tree) if isinstance(n, (ast.FunctionDef, ast.AsyncFunctionDef)) and n.name == cands[0]), None)
                    oldparams = [p_ for p_ in PIN_FUNCS[f"{scope}.{old}"] if not p_.startswith("*")]
                    if newdef is not None:
                        a = newdef.args
                        newparams = [x.arg for x in a.posonlyargs + a.args + a.kwonlyargs]
                        if len(newparams) == len(oldparams) and newparams != oldparams:
                            PARAM_RENAMES[old] = dict(zip(newparams, oldparams))
    return ren


PARAM_RENAMES = {}


class _Rename(ast.NodeTransformer):
    def __init__(self, ren):
        self.ren = ren

    def visit_FunctionDef(self, n):
        was = n.name
        n.name = self.ren.get(n.name, n.name)
        pm = PARAM_RENAMES.get(n.name) if was != n.name else None
        if pm:
            taken = {x.id for x in ast.walk(n) if isinstance(x, ast.Name)} - set(pm)
            if not (set(pm.values()) & taken):
                for x in ast.walk(n):
                    if isinstance(x, ast.arg) and x.arg in pm:
                        x.arg = pm[x.arg]
                    elif isinstance(x, ast.Name) and x.id in pm:
                        x.id = pm[x.id]
        self.generic_visit(n)
        return n

    def visit_Call(self, n):
        self.generic_visit(n)
        f = n.func
        nm = f.id if isinstance(f, ast.Name) else f.attr if isinstance(f, ast.Attribute) else None
        pm = PARAM_RENAMES.get(nm)
        if pm:
            for k in n.keywords:
                if k.arg in pm:
                    k.arg = pm[k.arg]
        return n

    def visit_Name(self, n):
        n.id = self.ren.get(n.id, n.id)
        return n

    def visit_Attribute(self, n):
        n.attr = self.ren.get(n.attr, n.attr)
        self.generic_visit(n)
        return n

    def visit_alias(self, n):
        n.name = self.ren.get(n.name, n.name)
        if n.asname:
            n.asname = self.ren.get(n.asname, n.asname)
        return n


class Module:
    def __init__(self, name, path, relpath, renames=None):
        self.name = name
        self.path = path
        self.relpath = relpath
        self.src = open(path, encoding="utf-8").read()
        try:
            self.tree = ast.parse(self.src, filename=path)
        except SyntaxError as e:
            raise AnalysisError(f"cannot parse {relpath}: {e}")
        if renames:
            _Rename(renames).visit(self.tree)
        _drop_noise(self.tree)
        _PipeAndDict().visit(self.tree)
        _canon_ifexp(self.tree)
        _canon_while(self.tree)
        _canon_compare(self.tree)
        if os.environ.get("VSA_CANON_LOOPS", "1") == "1":
            _canon_loops(self.tree)
        _canon_loop_unpack(self.tree)
        _canon_guard_tail(self.tree)
        _canon_continue(self.tree)
        _canon_not_else(self.tree)
        self.literals = _module_literals(self.tree)
        if self.literals:
            _InlineLits(self.literals).visit(self.tree)
        self.imports = {}   # local name -> (module name, attr or None)
        self.funcs = {}
        self.classes = {}
        self.consts = {}    # name -> ast expr (last top-level simple assignment)
        self._index()

    def _index(self):
        pkg_parts = self.name.split(".")
        for node in self.tree.body:
            self._index_stmt(node, pkg_parts)
        # function-level imports (e.g. `from wavespectra.construct.frequency import jonswap`)
        for node in ast.walk(self.tree):
            if isinstance(node, (ast.Import, ast.ImportFrom)):
                self._index_import(node, pkg_parts, overwrite=False)
        for n in ast.walk(self.tree):
            for c in ast.iter_child_nodes(n):
                c._parent = n

    def _index_import(self, node, pkg_parts, overwrite=True):
        if isinstance(node, ast.Import):
            for a in node.names:
                local = a.asname or a.name.split(".")[0]
                target = a.name if a.asname else a.name.split(".")[0]
                if overwrite or local not in self.imports:
                    self.imports[local] = (target, None)
        else:
            mod = node.module or ""
            if node.level:
                base = pkg_parts[: len(pkg_parts) - node.level + (1 if self.path.endswith("__init__.py") else 0)]
                mod = ".".join(base + ([mod] if mod else []))
            for a in node.names:
                local = a.asname or a.name
                if overwrite or local not in self.imports:
                    self.imports[local] = (mod, a.name)

    def _index_stmt(self, node, pkg_parts):
        if isinstance(node, (ast.Import, ast.ImportFrom)):
            self._index_import(node, pkg_parts)
        elif isinstance(node, (ast.FunctionDef, ast.AsyncFunctionDef)):
            self.funcs[node.name] = FuncInfo(self, node)
        elif isinstance(node, ast.ClassDef):
            ci = ClassInfo(self, node)
            self.classes[node.name] = ci
            for sub in node.body:
                if isinstance(sub, (ast.FunctionDef, ast.AsyncFunctionDef)):
                    ci.methods[sub.name] = FuncInfo(self, sub, ci)
            for sub in node.body:     # class-level method aliases:  __getattr__ = __getitem__
                if isinstance(sub, ast.Assign) and len(sub.targets) == 1:
                    t, v = sub.targets[0], sub.value
                    pairs = []
                    if isinstance(t, ast.Name) and isinstance(v, ast.Name):
                        pairs = [(t, v)]
                    elif isinstance(t, ast.Tuple) and isinstance(v, ast.Tuple) and len(t.elts) == len(v.elts):
                        pairs = list(zip(t.elts, v.elts))
                    for a, b in pairs:
                        if isinstance(a, ast.Name) and isinstance(b, ast.Name) and b.id in ci.methods:
                            ci.methods[a.id] = ci.methods[b.id]
        elif isinstance(node, ast.Assign) and len(node.targets) == 1 and isinstance(node.targets[0], ast.Name):
            self.consts[node.targets[0].id] = node.value
        elif isinstance(node, ast.AnnAssign) and isinstance(node.target, ast.Name) and node.value is not None:
            self.consts[node.target.id] = node.value
        elif isinstance(node, (ast.Try, ast.If, ast.With)):
            for sub in ast.iter_child_nodes(node):
                if isinstance(sub, ast.stmt):
                    self._index_stmt(sub, pkg_parts)
                elif isinstance(sub, ast.ExceptHandler):
                    for s2 in sub.body:
                        self._index_stmt(s2, pkg_parts)

    def all_funcs(self):
        for f in self.funcs.values():
            yield f
        for c in self.classes.values():
            for m in c.methods.values():
                yield m


_NP_CONSTS = {"pi": math.pi, "inf": math.inf, "nan": math.nan, "e": math.e, "newaxis": None,
              "float32": "float32", "float64": "float64", "int16": "int16", "int32": "int32", "int64": "int64"}
_SCIPY_CONSTS = {"pi": math.pi, "g": 9.80665}


class Repo:
    def __init__(self, root=None):
        self.root = root or REPO
        self.modules = {}
        pkgdir = os.path.join(self.root, PKG)
        if not os.path.isdir(pkgdir):
            raise AnalysisError(f"package directory {pkgdir} not found")
        files = []
        for dp, dn, fn in os.walk(pkgdir):
            dn[:] = [d for d in dn if d != "__pycache__"]
            for f in sorted(fn):
                if f.endswith(".py"):
                    path = os.path.join(dp, f)
                    rel = os.path.relpath(path, self.root)
                    name = rel[:-3].replace(os.sep, ".")
                    if name.endswith(".__init__"):
                        name = name[: -len(".__init__")]
                    files.append((name, path, rel))
        raw = {}
        for name, path, rel in files:
            try:
                raw[name] = ast.parse(open(path, encoding="utf-8").read(), filename=path)
            except SyntaxError as e:
                raise AnalysisError(f"cannot parse {rel}: {e}")
        self.renames = detect_renames(raw)
        for name, path, rel in files:
            self.modules[name] = Module(name, path, rel, self.renames)
        self.moved_back = self._undo_moves()
        self.unstatic = self._undo_staticmethods()
        # numeric module constants imported from another module of the package are inlined too
        for m in self.modules.values():
            ext = {}
            for local, (mod, attr) in m.imports.items():
                src = self.modules.get(mod)
                if src is not None and attr and attr in src.literals and local not in m.literals:
                    ext[local] = src.literals[attr]
            if ext:
                _InlineLits(ext).visit(m.tree)
                for n in ast.walk(m.tree):
                    for c in ast.iter_child_nodes(n):
                        c._parent = n
        from .inline import inline_new_private_helpers
        self.inlined_calls = inline_new_private_helpers(self)
        for m_ in self.modules.values():
            if "operator" in m_.imports:
                _OperatorCalls().visit(m_.tree)
                for n_ in ast.walk(m_.tree):
                    for c_ in ast.iter_child_nodes(n_):
                        c_._parent = n_
        from .temps import fold_new_temporaries
        self.folded_temps = fold_new_temporaries(self) if os.environ.get("VSA_FOLD_TEMPS", "1") == "1" else 0
        for m_ in self.modules.values():
            if _canon_signs(m_.tree):
                for n_ in ast.walk(m_.tree):
                    for c_ in ast.iter_child_nodes(n_):
                        c_._parent = n_
        ypath0 = os.path.join(pkgdir, "core", "attributes.yml")
        if os.path.exists(ypath0):
            self.attrs = AttrView(load_yaml(ypath0))
            self._canon_indexers()
            self._canon_internal_calls(os.environ.get("VSA_CALLSTYLE", "positional"))
        ypath = os.path.join(pkgdir, "core", "attributes.yml")
        if not os.path.exists(ypath):
            raise AnalysisError("wavespectra/core/attributes.yml vanished")
        self.attrs = AttrView(load_yaml(ypath))
        self._plugin_cache = None

    def _undo_staticmethods(self):
        """E0 normalisation: a pinned method `def m(self, ..)` that never used self and was turned into `@staticmethod def m(..)` (call sites
        unchanged: `self.m(..)`) is read with its self parameter again - the rules address the data parameters of methods by position."""
        from .inline import PIN_FUNCS
        n_ = 0
        from .inline import _clone
        for m in self.modules.values():
            for c in m.classes.values():
                # class-level alias of a NEW module-level function:  _set_metadata = staticmethod(_set_part_metadata)
                for st in list(c.node.body):
                    if not (isinstance(st, ast.Assign) and len(st.targets) == 1 and isinstance(st.targets[0], ast.Name)):
                        continue
                    nm, v = st.targets[0].id, st.value
                    if isinstance(v, ast.Call) and isinstance(v.func, ast.Name) and v.func.id == "staticmethod" and len(v.args) == 1:
                        v = v.args[0]
                    else:
                        continue
                    pinned = PIN_FUNCS.get(f"{c.qualname}.{nm}")
                    if not (isinstance(v, ast.Name) and v.id in m.funcs and pinned and pinned[0] == "self" and nm not in c.methods
                            and m.funcs[v.id].qualname not in PIN_FUNCS):
                        continue
                    node = _clone(m.funcs[v.id].node)
                    node.name = nm
                    node.args.args.insert(0, ast.arg(arg="self", annotation=None, lineno=node.lineno, col_offset=node.col_offset))
                    c.node.body[c.node.body.index(st)] = node
                    node._parent = c.node
                    for x in ast.walk(node):
                        for ch in ast.iter_child_nodes(x):
                            ch._parent = x
                    c.methods[nm] = FuncInfo(m, node, c)
                    n_ += 1
                for fi in set(c.methods.values()):
                    pinned = PIN_FUNCS.get(fi.qualname)
                    if not pinned or not pinned or pinned[0] != "self" or "staticmethod" not in fi.decorators:
                        continue
                    a = fi.node.args
                    cur = [x.arg for x in a.posonlyargs + a.args]
                    if cur and cur[0] == "self":
                        continue
                    if cur != list(pinned[1:len(cur) + 1]) and len(cur) != len([p_ for p_ in pinned[1:] if not p_.startswith("*")]) - len(a.kwonlyargs):
                        continue
                    a.args.insert(0, ast.arg(arg="self", annotation=None, lineno=fi.node.lineno, col_offset=fi.node.col_offset))
                    fi.node.decorator_list = [d for d in fi.node.decorator_list if ast.unparse(d) != "staticmethod"]
                    fi.decorators = [d for d in fi.decorators if d != "staticmethod"]
                    n_ += 1
        return n_

    def _undo_moves(self):
        """E0 normalisation: a pinned top-level function that was moved to another module of the package and imported back under its
        name is put back where it was pinned (the rules scope their scans by module).  Exact when every global name the body reads
        is bound to the same thing in both modules (same import target, or a builtin); otherwise the function stays where it is."""
        import builtins
        from .inline import PIN_FUNCS
        moved = 0
        for qual in PIN_FUNCS:
            mn, _, f = qual.rpartition(".")
            m = self.modules.get(mn)
            if m is None or f in m.funcs or f not in m.imports:
                continue
            m2n, f2 = m.imports[f]
            m2 = self.modules.get(m2n)
            if m2 is None or m2 is m or not f2 or f2 not in m2.funcs or f"{m2n}.{f2}" in PIN_FUNCS:
                continue
            fi = m2.funcs[f2]
            node = fi.node
            bound = {a.arg for a in ast.walk(node) if isinstance(a, ast.arg)} | \
                    {x.id for x in ast.walk(node) if isinstance(x, ast.Name) and isinstance(x.ctx, (ast.Store, ast.Del))}
            ok = True
            for x in ast.walk(node):
                if isinstance(x, ast.Name) and isinstance(x.ctx, ast.Load) and x.id not in bound and not hasattr(builtins, x.id):
                    if x.id == f2 or x.id == f:
                        continue
                    a, b = m2.imports.get(x.id), m.imports.get(x.id)
                    if a is None and x.id in m2.funcs and b == (m2n, x.id):
                        continue            # a sibling function of the new home that the old home imports under the same name
                    if a is None or a != b:
                        ok = False
            if not ok or node not in m2.tree.body:
                continue
            m2.tree.body.remove(node)
            del m2.funcs[f2]
            node.name = f
            for i_, st in enumerate(m.tree.body):
                if isinstance(st, ast.ImportFrom) and any((al.asname or al.name) == f for al in st.names):
                    st.names = [al for al in st.names if (al.asname or al.name) != f]
                    if not st.names:
                        m.tree.body[i_] = ast.copy_location(ast.Pass(), st)
            m.tree.body.append(node)
            del m.imports[f]
            m.funcs[f] = FuncInfo(m, node)
            m2.imports[f2] = (mn, f)
            for mod_ in (m, m2):
                for n_ in ast.walk(mod_.tree):
                    for c_ in ast.iter_child_nodes(n_):
                        c_._parent = n_
            moved += 1
        return moved

    INDEXER_METHODS = ("isel", "sel", "chunk", "interp", "rolling", "pad", "shift", "roll", "assign_coords", "reindex", "coarsen", "stack")
    # external calls whose leading parameters may be given by keyword or by position: (method?, name) -> leading parameter names
    EXTERNAL_LEADING = {(True, "expand_dims"): ("dim", "axis"), (True, "swapaxes"): ("axis1", "axis2"),
                        (False, "swapaxes"): ("a", "axis1", "axis2")}

    def _canon_indexers(self):
        """E0 normalisation: `x.isel(**{K: v})` and `x.isel({K: v})` are stored as `x.isel(k=v)` when every key is a constant
        string that is an identifier (attrs.DIRNAME -> dir): one spelling of the dict-or-kwargs calling convention of xarray."""
        for m in self.modules.values():
            changed = False
            for c in ast.walk(m.tree):
                if not (isinstance(c, ast.Call) and isinstance(c.func, ast.Attribute)
                        and (c.func.attr in self.INDEXER_METHODS or (True, c.func.attr) in self.EXTERNAL_LEADING)):
                    continue
                d = None
                lead = self.EXTERNAL_LEADING.get((True, c.func.attr))
                if lead and isinstance(c.func.value, ast.Name) and c.func.value.id in ("np", "numpy"):
                    lead = self.EXTERNAL_LEADING.get((False, c.func.attr))
                if lead and c.keywords and not any(isinstance(a, ast.Starred) for a in c.args):
                    # expand_dims(dim=X) == expand_dims(X): keywords that continue the positional prefix become positional
                    while len(c.args) < len(lead) and c.keywords and c.keywords[0].arg == lead[len(c.args)]:
                        c.args.append(c.keywords.pop(0).value)
                        changed = True
                if c.func.attr in ("rolling", "coarsen") and len(c.args) == 1 and not isinstance(c.args[0], ast.Dict) \
                        and not any(k.arg == "dim" for k in c.keywords):
                    c.keywords = [ast.keyword(arg="dim", value=c.args[0])] + c.keywords      # rolling(dim, ...) == rolling(dim=dim, ...)
                    c.args = []
                    changed = True
                    continue
                if c.func.attr not in self.INDEXER_METHODS:
                    continue
                if len(c.args) == 1 and isinstance(c.args[0], ast.Dict) and not any(k.arg is None for k in c.keywords):
                    d, where = c.args[0], "pos"
                elif not c.args and sum(1 for k in c.keywords if k.arg is None) == 1:
                    kk = [k for k in c.keywords if k.arg is None][0]
                    if isinstance(kk.value, ast.Dict):
                        d, where = kk.value, "star"
                if d is None or any(k is None for k in d.keys):
                    continue
                keys = [self.const(m, k) for k in d.keys]
                if not all(isinstance(k, str) and k.isidentifier() for k in keys):
                    continue
                if any(k in {x.arg for x in c.keywords if x.arg} for k in keys):
                    continue
                new = [ast.keyword(arg=k, value=v) for k, v in zip(keys, d.values)]
                if where == "pos":
                    c.args = []
                    c.keywords = new + c.keywords
                else:
                    c.keywords = [x for x in c.keywords if x.arg is not None] + new
                changed = True
            if changed:
                for n in ast.walk(m.tree):
                    for ch in ast.iter_child_nodes(n):
                        ch._parent = n

    def _canon_internal_calls(self, style):
        """E0 normalisation: calls of package functions (plain, imported, module.func, self.method) get one argument style -
        the maximal positional prefix in signature order, the rest as keywords - so that `scaled(spec=x, hs=h)` and
        `scaled(x, h)` are one program.  Arguments are only re-spelled, never reordered in evaluation when that could matter:
        a call is left alone unless every re-spelled argument is a name / attribute / constant or the order is unchanged."""
        from .astutil import bound_args
        from .inline import _simple
        if style == "off":
            return
        for m in self.modules.values():
            todo = [(fi, fi.node) for fi in m.funcs.values()] + [(fi, fi.node) for c in m.classes.values() for fi in c.methods.values()]
            for fi, node in todo:
                for c in ast.walk(node):
                    if not isinstance(c, ast.Call) or any(isinstance(a, ast.Starred) for a in c.args) or any(k.arg is None for k in c.keywords):
                        continue
                    if not c.keywords:
                        continue
                    try:
                        tgt = self._callee(fi, c)
                    except Exception:
                        tgt = None
                    if tgt is None:
                        continue
                    a = tgt.node.args
                    if a.vararg or a.posonlyargs:
                        continue
                    pos = [x.arg for x in a.args]
                    if tgt.cls is not None and pos and pos[0] in ("self", "cls"):
                        pos = pos[1:]
                    given = dict(zip(pos, c.args))
                    if len(c.args) > len(pos):
                        continue
                    kws = {k.arg: k.value for k in c.keywords}
                    if any(k in given for k in kws):
                        continue
                    new_args, rest = list(c.args), dict(kws)
                    for p_ in pos[len(c.args):]:
                        if p_ in rest:
                            new_args.append(rest.pop(p_))
                        else:
                            break
                    if len(new_args) == len(c.args):
                        continue
                    moved = new_args[len(c.args):]
                    order_same = [k.arg for k in c.keywords][:len(moved)] == pos[len(c.args):len(c.args) + len(moved)]
                    if not order_same and not all(_simple(x) for x in kws.values()):
                        continue
                    c.args = new_args
                    c.keywords = [k for k in c.keywords if k.arg in rest]

    def _callee(self, fi, call):
        f = call.func
        if isinstance(f, ast.Name):
            t = self.resolve_symbol(fi.module, f.id)
            if isinstance(t, ClassInfo):
                return t.methods.get("__init__")
            return t if isinstance(t, FuncInfo) else None
        if isinstance(f, ast.Attribute) and isinstance(f.value, ast.Name) and f.value.id == "self" and fi.cls is not None:
            return fi.cls.methods.get(f.attr)
        if isinstance(f, ast.Attribute) and isinstance(f.value, ast.Name):
            imp = fi.module.imports.get(f.value.id)
            if imp and imp[0] in self.modules and imp[1] is None:
                return self.modules[imp[0]].funcs.get(f.attr)
            if imp and imp[1]:
                sub = self.modules.get(f"{imp[0]}.{imp[1]}")
                if sub is not None:
                    return sub.funcs.get(f.attr)
        if isinstance(f, ast.Attribute):
            # accessor hop: x.spec.momd(..), dset.spec._peak(..): a method name defined by exactly one class of the package and
            # not also a method of xarray / numpy objects
            um = self._unique_methods()
            return um.get(f.attr)
        return None

    def _unique_methods(self):
        if getattr(self, "_um", None) is None:
            from . import xrmodel as X
            seen = {}
            for m in self.modules.values():
                for c in m.classes.values():
                    for name, fi in c.methods.items():
                        seen.setdefault(name, []).append(fi)
            lib = set(getattr(X, "XR_METHODS", ())) | set(getattr(X, "MUTATING_METHODS", ())) | {
                "sum", "mean", "max", "min", "std", "where", "sel", "isel", "interp", "copy", "read", "write", "close", "get", "items",
                "keys", "values", "update", "plot", "to_netcdf", "sortby", "rename", "transpose", "dir", "freq", "smooth", "split"}
            self._um = {n: v[0] for n, v in seen.items() if len(v) == 1 and n not in lib and not n.startswith("__")}
        return self._um

    # ---- lookup -------------------------------------------------------------------
    def module(self, name):
        m = self.modules.get(name)
        if m is None:
            raise AnalysisError(f"module {name} not found (anchor vanished)")
        return m

    def func(self, qual):
        """'wavespectra.core.npstats.hs' or 'wavespectra.specarray.SpecArray.hs'."""
        parts = qual.split(".")
        for i in range(len(parts) - 1, 0, -1):
            mn = ".".join(parts[:i])
            if mn in self.modules:
                m, rest = self.modules[mn], parts[i:]
                if len(rest) == 1 and rest[0] in m.funcs:
                    return m.funcs[rest[0]]
                if len(rest) == 1 and rest[0] in m.imports and m.imports[rest[0]][1]:
                    # the function was moved to another module of the package and imported back under the same name
                    src = self.modules.get(m.imports[rest[0]][0])
                    if src is not None and m.imports[rest[0]][1] in src.funcs:
                        return src.funcs[m.imports[rest[0]][1]]
                if len(rest) == 2 and rest[0] in m.classes and rest[1] in m.classes[rest[0]].methods:
                    return m.classes[rest[0]].methods[rest[1]]
        raise AnalysisError(f"function {qual} not found (anchor vanished)")

    def try_func(self, qual):
        try:
            return self.func(qual)
        except AnalysisError:
            return None

    def cls(self, qual):
        mn, _, cn = qual.rpartition(".")
        m = self.module(mn)
        if cn not in m.classes:
            raise AnalysisError(f"class {qual} not found (anchor vanished)")
        return m.classes[cn]

    def all_funcs(self, include_inlined=False):
        skip = () if include_inlined else getattr(self, "inlined_helpers", ())
        for m in self.modules.values():
            for fi in m.all_funcs():
                if fi.qualname not in skip:
                    yield fi

    # ---- dynamic registrations ------------------------------------------------------
    def plugins(self):
        """to_* functions of wavespectra/output/*.py -> become SpecDataset methods (Plugin metaclass)."""
        if self._plugin_cache is None:
            out = {}
            for name, m in self.modules.items():
                if name.startswith(f"{PKG}.output.") :
                    for fn, fi in m.funcs.items():
                        if fn.startswith("to_"):
                            out[fn] = fi
            self._plugin_cache = out
        return self._plugin_cache

    # ---- symbol resolution --------------------------------------------------------
    def resolve_symbol(self, module, name, _depth=0):
        """Resolve a bare name in `module` to FuncInfo | ClassInfo | Module | ('const', module, expr) | ('ext', dotted)."""
        if _depth > 8:
            return None
        if name in module.funcs:
            return module.funcs[name]
        if name in module.classes:
            return module.classes[name]
        if name in module.consts and name not in module.imports:
            return ("const", module, module.consts[name])
        if name in module.imports:
            mod, attr = module.imports[name]
            if attr is None:
                if mod in self.modules:
                    return self.modules[mod]
                return ("ext", mod)
            full = f"{mod}.{attr}"
            if full in self.modules:
                return self.modules[full]
            if mod in self.modules:
                return self.resolve_symbol(self.modules[mod], attr, _depth + 1)
            return ("ext", full)
        if name in module.consts:
            return ("const", module, module.consts[name])
        return None

    def resolve_expr(self, module, expr):
        """Resolve Name / dotted Attribute to a symbol (no receiver typing)."""
        if isinstance(expr, ast.Name):
            return self.resolve_symbol(module, expr.id)
        if isinstance(expr, ast.Attribute):
            base = self.resolve_expr(module, expr.value)
            if isinstance(base, Module):
                sub = f"{base.name}.{expr.attr}"
                if sub in self.modules:
                    return self.modules[sub]
                return self.resolve_symbol(base, expr.attr)
            if isinstance(base, ClassInfo):
                return base.methods.get(expr.attr)
            if isinstance(base, tuple) and base[0] == "ext":
                return ("ext", f"{base[1]}.{expr.attr}")
        return None

    # ---- constant evaluation ------------------------------------------------------
    def const(self, module, expr, env=None, _depth=0):
        """Value of `expr` if it is determined by literals, module constants, attributes.yml."""
        if _depth > 20 or expr is None:
            return UNKNOWN
        ev = lambda e: self.const(module, e, env, _depth + 1)
        if isinstance(expr, ast.Constant):
            return expr.value
        if isinstance(expr, ast.Name):
            if env and expr.id in env:
                v = env[expr.id]
                return ev(v) if isinstance(v, ast.AST) else v
            if expr.id in ("True", "False", "None"):
                return {"True": True, "False": False, "None": None}[expr.id]
            sym = self.resolve_symbol(module, expr.id)
            if isinstance(sym, tuple) and sym[0] == "const":
                if sym[1].name == f"{PKG}.core.attributes" and expr.id == "attrs":
                    return self.attrs
                return self.const(sym[1], sym[2], None, _depth + 1)
            if isinstance(sym, tuple) and sym[0] == "ext":
                tail = sym[1].split(".")
                if tail[0] in ("numpy",) and tail[-1] in _NP_CONSTS and len(tail) == 2:
                    return _NP_CONSTS[tail[-1]]
                if sym[1] in ("scipy.constants.pi", "math.pi"):
                    return math.pi
                if sym[1] == "scipy.constants.g":
                    return _SCIPY_CONSTS["g"]
            return UNKNOWN
        if isinstance(expr, ast.Attribute):
            base = expr.value
            sym = self.resolve_expr(module, expr)
            if isinstance(sym, tuple) and sym[0] == "const":
                return self.const(sym[1], sym[2], None, _depth + 1)
            if isinstance(sym, tuple) and sym[0] == "ext":
                parts = sym[1].split(".")
                if parts[0] == "numpy" and len(parts) == 2 and parts[1] in _NP_CONSTS:
                    return _NP_CONSTS[parts[1]]
                if sym[1] in ("scipy.constants.pi", "math.pi"):
                    return math.pi
                if sym[1] == "scipy.constants.g":
                    return _SCIPY_CONSTS["g"]
                return UNKNOWN
            bv = ev(base)
            if isinstance(bv, dict):
                if expr.attr in bv:
                    v = bv[expr.attr]
                    return AttrView(v) if isinstance(v, dict) else v
                return UNKNOWN
            return UNKNOWN
        if isinstance(expr, ast.Subscript):
            bv, kv = ev(expr.value), ev(expr.slice)
            if bv is UNKNOWN or kv is UNKNOWN:
                return UNKNOWN
            try:
                v = bv[kv]
                return AttrView(v) if isinstance(v, dict) and not isinstance(v, AttrView) else v
            except Exception:
                return UNKNOWN
        if isinstance(expr, ast.UnaryOp):
            v = ev(expr.operand)
            if v is UNKNOWN:
                return UNKNOWN
            try:
                if isinstance(expr.op, ast.USub):
                    return -v
                if isinstance(expr.op, ast.UAdd):
                    return +v
                if isinstance(expr.op, ast.Not):
                    return not v
            except Exception:
                return UNKNOWN
            return UNKNOWN
        if isinstance(expr, ast.BinOp):
            a, b = ev(expr.left), ev(expr.right)
            if a is UNKNOWN or b is UNKNOWN:
                return UNKNOWN
            try:
                op = expr.op
                if isinstance(op, ast.Add):
                    return a + b
                if isinstance(op, ast.Sub):
                    return a - b
                if isinstance(op, ast.Mult):
                    return a * b
                if isinstance(op, ast.Div):
                    return a / b
                if isinstance(op, ast.Pow):
                    return a ** b
                if isinstance(op, ast.Mod):
                    return a % b
                if isinstance(op, ast.FloorDiv):
                    return a // b
            except Exception:
                return UNKNOWN
            return UNKNOWN
        if isinstance(expr, (ast.List, ast.Tuple, ast.Set)):
            vals = [ev(e) for e in expr.elts]
            if any(v is UNKNOWN for v in vals):
                return UNKNOWN
            return {ast.List: list, ast.Tuple: tuple, ast.Set: (lambda x: frozenset(map(_hashable, x)))}[type(expr)](vals)
        if isinstance(expr, ast.Dict):
            out = {}
            for k, v in zip(expr.keys, expr.values):
                if k is None:
                    return UNKNOWN
                kv, vv = ev(k), ev(v)
                if kv is UNKNOWN:
                    return UNKNOWN
                out[kv] = vv
            return out
        if isinstance(expr, ast.IfExp):
            t = ev(expr.test)
            if t is UNKNOWN or isinstance(t, (dict, list)):
                return UNKNOWN
            return ev(expr.body if t else expr.orelse)
        if isinstance(expr, ast.Compare) and len(expr.ops) == 1 and isinstance(expr.ops[0], (ast.Is, ast.IsNot, ast.Eq, ast.NotEq)):
            a, b = ev(expr.left), ev(expr.comparators[0])
            if a is UNKNOWN or b is UNKNOWN or isinstance(a, (dict, list)) or isinstance(b, (dict, list)):
                return UNKNOWN
            op = expr.ops[0]
            if isinstance(op, ast.Is):
                return a is b
            if isinstance(op, ast.IsNot):
                return a is not b
            return (a == b) if isinstance(op, ast.Eq) else (a != b)
        if isinstance(expr, ast.JoinedStr):
            parts = []
            for v in expr.values:
                if isinstance(v, ast.Constant):
                    parts.append(str(v.value))
                else:
                    return UNKNOWN
            return "".join(parts)
        if isinstance(expr, ast.Call):
            fn = expr.func
            name = ast.unparse(fn)
            if name in ("float", "int", "str", "abs") and len(expr.args) == 1 and not expr.keywords:
                v = ev(expr.args[0])
                if v is UNKNOWN:
                    return UNKNOWN
                try:
                    return {"float": float, "int": int, "str": str, "abs": abs}[name](v)
                except Exception:
                    return UNKNOWN
            if name in ("set", "frozenset", "list", "tuple") and len(expr.args) <= 1 and not expr.keywords:
                if not expr.args:
                    return {"set": frozenset(), "frozenset": frozenset(), "list": [], "tuple": ()}[name]
                v = ev(expr.args[0])
                if v is UNKNOWN:
                    return UNKNOWN
                try:
                    return {"set": frozenset, "frozenset": frozenset, "list": list, "tuple": tuple}[name](v)
                except Exception:
                    return UNKNOWN
            if name in ("np.sqrt", "numpy.sqrt", "math.sqrt") and len(expr.args) == 1:
                v = ev(expr.args[0])
                try:
                    return math.sqrt(v) if v is not UNKNOWN else UNKNOWN
                except Exception:
                    return UNKNOWN
            return UNKNOWN
        return UNKNOWN


def _hashable(v):
    if isinstance(v, list):
        return tuple(v)
    return v


# ---- small AST helpers used by rules -----------------------------------------------------

def parent(node):
    return getattr(node, "_parent", None)


def enclosing_stmt(node):
    while node is not None and not isinstance(node, ast.stmt):
        node = parent(node)
    return node


def enclosing_func(node):
    node = parent(node)
    while node is not None and not isinstance(node, (ast.FunctionDef, ast.AsyncFunctionDef)):
        node = parent(node)
    return node


def calls_in(node):
    for n in ast.walk(node):
        if isinstance(n, ast.Call):
            yield n


def call_name(call):
    """Dotted text of the callee ('xr.apply_ufunc', 'dset.chunk', 'self._peak')."""
    try:
        return ast.unparse(call.func)
    except Exception:
        return ""


def kwarg(call, name):
    for k in call.keywords:
        if k.arg == name:
            return k.value
    return None


def unparse(node):
    return " ".join(ast.unparse(node).split())


def local_assignments(func_node):
    """name -> list of (stmt, value expr) for simple `name = expr` assignments inside a function."""
    out = {}
    for n in ast.walk(func_node):
        if isinstance(n, ast.Assign):
            for t in n.targets:
                if isinstance(t, ast.Name):
                    out.setdefault(t.id, []).append((n, n.value))
                elif isinstance(t, (ast.Tuple, ast.List)):
                    for i, e in enumerate(t.elts):
                        if isinstance(e, ast.Name):
                            out.setdefault(e.id, []).append((n, ("tuple", i, n.value)))
        elif isinstance(n, ast.AnnAssign) and isinstance(n.target, ast.Name) and n.value is not None:
            out.setdefault(n.target.id, []).append((n, n.value))
    return out
