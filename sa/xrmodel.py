"""E1 - API model of xarray / numpy / pandas / builtins used by the effect analysis (DESIGN section 3.2).

Every row was measured once against the pinned xarray 2026.7.0 / numpy 2.5.3 (selftest/model_probe.py,
a development aid; registered checks never import those libraries).  The table is the trusted base
of C17/C18.

Aliasing classes for methods called on an xarray object `x` (result r):
  FRESH      r shares nothing with x                       (deep copy, interp, concat, sortby, where, fillna, astype, reductions' data)
  ARITH      r.C r.V r.B fresh; coordinate Variable objects are *the same objects* as x's
  NEWVARS    r.C fresh, new Variable objects everywhere, buffers shared (shallow copy, rename({..}), assign_coords,
             transpose, chunk, reset_coords, stack, to_dataset, merge, expand_dims on Dataset, swap_dims)
  VIEW       r.C fresh, data Variable new but buffer shared, untouched coordinate Variable objects identical
             (isel/sel by int or slice, squeeze, drop_vars, rename(name), expand_dims, sub-variable access)
  SAME       r is x (or shares everything): unknown methods default to this (sound)
"""

FRESH, ARITH, NEWVARS, VIEW, SAME, INDEX = "FRESH", "ARITH", "NEWVARS", "VIEW", "SAME", "INDEX"

# method name -> aliasing class when the receiver is (or may be) an xarray object
XR_METHODS = {
    # deep / rebuilt
    "interp": FRESH, "interp_like": FRESH, "sortby": FRESH, "where": "WHERE", "fillna": "WHERE", "astype": "WHERE",
    "round": ARITH, "clip": ARITH, "dropna": FRESH, "reindex": FRESH, "reindex_like": FRESH,
    "roll": FRESH, "shift": FRESH, "diff": FRESH, "cumsum": ARITH, "cumprod": ARITH, "rolling": "WHERE", "coarsen": "WHERE",
    "mean": ARITH, "sum": ARITH, "max": ARITH, "min": ARITH, "std": ARITH, "var": ARITH, "median": ARITH, "prod": ARITH,
    "argmax": ARITH, "argmin": ARITH, "idxmax": ARITH, "idxmin": ARITH, "count": ARITH, "any": ARITH, "all": ARITH,
    "notnull": ARITH, "isnull": ARITH, "isin": ARITH, "dot": ARITH, "integrate": ARITH, "differentiate": ARITH,
    "searchsorted": FRESH, "equals": FRESH, "identical": FRESH, "broadcast_equals": FRESH,
    "groupby": "WHERE", "resample": "WHERE", "construct": "WHERE", "combine_first": FRESH, "unstack": FRESH,
    "to_dict": FRESH, "to_series": FRESH, "to_dataframe": FRESH, "to_pandas": FRESH, "to_index": FRESH,
    "to_pydatetime": FRESH, "strftime": FRESH, "tolist": FRESH, "item": FRESH, "to_netcdf": FRESH, "to_zarr": FRESH,
    "load": SAME, "compute": FRESH, "persist": NEWVARS,
    # new Variable objects, shared buffers
    "transpose": NEWVARS, "chunk": NEWVARS, "assign_coords": NEWVARS, "assign": NEWVARS, "reset_coords": NEWVARS,
    "stack": NEWVARS, "to_dataset": NEWVARS, "swap_dims": NEWVARS, "set_index": NEWVARS, "reset_index": NEWVARS,
    "set_coords": NEWVARS, "assign_attrs": NEWVARS, "to_array": NEWVARS, "to_dataarray": NEWVARS, "pipe": SAME,
    "drop_dims": VIEW, "drop_vars": VIEW, "drop": VIEW, "squeeze": VIEW, "expand_dims": VIEW, "rename": "RENAME",
    "rename_vars": NEWVARS, "rename_dims": NEWVARS, "broadcast_like": NEWVARS, "unify_chunks": NEWVARS,
    "isel": INDEX, "sel": INDEX, "head": VIEW, "tail": VIEW, "thin": VIEW, "drop_sel": FRESH, "drop_isel": FRESH,
    "copy": "COPY",
    "get": VIEW, "items": VIEW, "values": VIEW, "keys": FRESH,
}

# ndarray / generic methods (receiver ND or unknown)
ND_FRESH = {"copy", "astype", "sum", "mean", "max", "min", "argmax", "argmin", "argsort", "cumsum", "tolist", "item",
            "round", "clip", "repeat", "flatten", "nonzero", "dot", "std", "var", "prod", "any", "all", "conj",
            "searchsorted", "take", "compress", "choose", "tobytes", "tostring", "decode", "encode", "split", "strip",
            "lstrip", "rstrip", "replace", "format", "join", "lower", "upper", "startswith", "endswith", "find",
            "index", "count", "readlines", "readline", "read", "total_seconds", "groups", "match", "isoformat",
            "removeprefix", "removesuffix", "with_suffix", "is_file", "exists", "getvalue", "to_pydatetime",
            "union", "intersection", "difference", "issubset", "keys", "filter", "drop_duplicates", "to_xarray",
            "set_index", "apply", "nunique", "select_dtypes", "tz_localize", "to_datetime", "strftime", "shift"}
ND_VIEW = {"reshape", "ravel", "squeeze", "swapaxes", "transpose", "view", "T", "flat", "real", "imag", "diagonal",
           "get", "values", "items", "iloc", "loc", "rename", "drop", "first", "last", "pipe"}

# in-place mutators: method name -> 'B' (buffer / container contents)
MUTATING_METHODS = {"append", "extend", "insert", "pop", "remove", "clear", "update", "setdefault", "popitem",
                    "sort", "reverse", "add", "discard", "fill", "resize", "put", "itemset", "partition", "setfield",
                    "setflags", "byteswap", "__setitem__", "__delitem__", "__iadd__", "__imul__", "write_direct",
                    "move_to_end"}
# functions mutating their first positional argument
MUTATING_FUNCS = {"np.put", "np.copyto", "np.place", "np.putmask", "np.fill_diagonal", "np.random.shuffle",
                  "numpy.put", "numpy.copyto", "random.shuffle", "np.put_along_axis", "setattr", "heapq.heappush",
                  "heapq.heappop", "bisect.insort", "np.ndarray.sort", "np.ndarray.fill", "list.append", "dict.update",
                  "list.sort"}

# free functions: dotted name -> aliasing of the result w.r.t. its (array-like) arguments
FUNC_SHARES_ARGS = {"np.asarray", "np.atleast_1d", "np.atleast_2d", "np.asanyarray", "np.ascontiguousarray",
                    "np.asfortranarray", "np.squeeze", "np.reshape", "np.ravel", "np.transpose", "np.swapaxes",
                    "np.broadcast_to", "np.expand_dims", "np.moveaxis", "np.real", "np.require", "xr.DataArray",
                    "xr.Dataset", "xr.Variable", "xr.broadcast", "xr.align", "iter", "reversed", "zip", "enumerate",
                    "getattr", "next", "np.nditer", "np.diagonal", "np.split", "np.array_split", "np.hsplit",
                    "np.vsplit", "np.flip", "np.flipud", "np.fliplr", "np.rollaxis", "memoryview", "pd.Series",
                    "pd.DataFrame", "pd.Index", "xr.merge", "dict.get", "np.lib.stride_tricks.as_strided", "vars"}
# xr.merge / xr.Dataset(...) build new containers and Variable objects but share buffers -> NEWVARS on args
FUNC_NEWVARS = {"xr.merge", "xr.Dataset", "xr.DataArray", "xr.broadcast", "xr.align"}

BUILTIN_FRESH = {"list", "dict", "set", "tuple", "sorted", "frozenset", "str", "int", "float", "bool", "len", "abs",
                 "min", "max", "sum", "range", "round", "isinstance", "hasattr", "callable", "any", "all", "repr",
                 "map", "filter", "type", "id", "print", "open", "divmod", "pow", "ord", "chr", "format", "bytes"}
# note: list(x)/dict(x)/tuple(x) copy the container but share the elements; handled in effects.eval_call
