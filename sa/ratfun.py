"""Exact rational-function normal form of straight-line Python arithmetic (static, symbolic - no evaluation of the program).

An expression built from names, numeric literals, + - * / and small integer powers is mapped to a pair of multivariate polynomials
(numerator, denominator) with Fraction coefficients (sa.cast.Poly).  Two expressions denote the same function of their free names iff
n1 * d2 == n2 * d1 as polynomials - a decision procedure, not a pattern match: any algebraically equal rewriting (re-association, a closed
form on a sub-case, hoisted temporaries) has the same normal form, and a sign slip or a dropped term does not.

Used by rules that state a formula (the three-point parabola vertex of npstats.tps, arithmetic progressions of instrument frequency axes).
"""
import ast
from fractions import Fraction

from .cast import Poly
from .report import AnalysisError

_WRAPPERS = {"float", "float32", "float64", "asarray", "array", "abs_"}


class NotRational(Exception):
    pass


class Rat:
    __slots__ = ("n", "d")

    def __init__(self, n, d=None):
        self.n = n
        self.d = d if d is not None else Poly.const(1)

    def __add__(self, o):
        return Rat(self.n * o.d + o.n * self.d, self.d * o.d)

    def __sub__(self, o):
        return Rat(self.n * o.d - o.n * self.d, self.d * o.d)

    def __mul__(self, o):
        return Rat(self.n * o.n, self.d * o.d)

    def __truediv__(self, o):
        if o.n == Poly.const(0):
            raise NotRational("division by zero polynomial")
        return Rat(self.n * o.d, self.d * o.n)

    def __neg__(self):
        return Rat(-self.n, self.d)

    def equals(self, o):
        return self.n * o.d == o.n * self.d

    def subst(self, name, r):
        """substitute name := r (a Rat with constant denominator or general): done on numerator and denominator separately via common power"""
        # general substitution of a rational value into a polynomial: p(x := a/b) = sum c_k a^k b^(deg-k) / b^deg
        def sub_poly(p):
            terms = _terms(p)
            deg = max((mono.count(name) for mono, _ in terms), default=0)
            num = Poly.const(0)
            for mono, c in terms:
                k = mono.count(name)
                t = Poly.const(c)
                for v in mono:
                    if v != name:
                        t = t * Poly.var(v)
                for _ in range(k):
                    t = t * r.n
                for _ in range(deg - k):
                    t = t * r.d
                num = num + t
            den = Poly.const(1)
            for _ in range(deg):
                den = den * r.d
            return Rat(num, den)
        return sub_poly(self.n) / sub_poly(self.d)

    def vars(self):
        return set(self.n.vars()) | set(self.d.vars())


def _terms(p):
    """[(monomial as sorted tuple of names with repetition, coefficient)] of a cast.Poly"""
    t = getattr(p, "t", None)
    if t is None:
        raise AnalysisError("ratfun: polynomial representation changed")
    return list(t.items())


def rat_of(expr, env=None, depth=0):
    """Rat of a Python expression; env maps local names to expressions (ast) or Rat values; unknown names are free variables."""
    env = env or {}
    if depth > 40:
        raise NotRational("too deep")
    if isinstance(expr, Rat):
        return expr
    if isinstance(expr, ast.Constant) and isinstance(expr.value, (int, float)) and not isinstance(expr.value, bool):
        return Rat(Poly.const(Fraction(str(expr.value)) if isinstance(expr.value, float) else Fraction(expr.value)))
    if isinstance(expr, ast.Name):
        if expr.id in env:
            return rat_of(env[expr.id], env, depth + 1)
        return Rat(Poly.var(expr.id))
    if isinstance(expr, ast.UnaryOp) and isinstance(expr.op, (ast.USub, ast.UAdd)):
        v = rat_of(expr.operand, env, depth + 1)
        return -v if isinstance(expr.op, ast.USub) else v
    if isinstance(expr, ast.BinOp):
        if isinstance(expr.op, ast.Pow):
            e = expr.right
            if isinstance(e, ast.Constant) and isinstance(e.value, int) and 0 <= e.value <= 6:
                b = rat_of(expr.left, env, depth + 1)
                out = Rat(Poly.const(1))
                for _ in range(e.value):
                    out = out * b
                return out
            raise NotRational("non-integer power")
        a, b = rat_of(expr.left, env, depth + 1), rat_of(expr.right, env, depth + 1)
        if isinstance(expr.op, ast.Add):
            return a + b
        if isinstance(expr.op, ast.Sub):
            return a - b
        if isinstance(expr.op, ast.Mult):
            return a * b
        if isinstance(expr.op, ast.Div):
            return a / b
        raise NotRational(type(expr.op).__name__)
    if isinstance(expr, ast.Call) and not expr.keywords and len(expr.args) == 1:
        f = expr.func
        nm = f.attr if isinstance(f, ast.Attribute) else f.id if isinstance(f, ast.Name) else None
        if nm in _WRAPPERS:
            return rat_of(expr.args[0], env, depth + 1)
    if isinstance(expr, ast.Subscript):
        # an array element is an opaque quantity named by its text:  freq[ipeak - 1]
        return Rat(Poly.var(ast.unparse(expr).replace(" ", "")))
    if isinstance(expr, ast.Attribute):
        return Rat(Poly.var(ast.unparse(expr)))
    raise NotRational(ast.dump(expr)[:60])


def solve_linear_equality(lhs, rhs, env=None):
    """From `lhs == rhs` (both polynomial, i.e. denominators constant) pick a variable that occurs linearly with a constant coefficient and
    return (name, Rat value) such that the equality holds; None when there is none."""
    d = rat_of(lhs, env) - rat_of(rhs, env)
    if not d.d.is_const():
        return None
    p = d.n
    for v in sorted(p.vars(), reverse=True):
        lin = Fraction(0)
        rest = Poly.const(0)
        ok = True
        for mono, c in _terms(p):
            if v in mono:
                if mono != (v,):
                    ok = False
                    break
                lin += c
            else:
                t = Poly.const(c)
                for vv in mono:
                    t = t * Poly.var(vv)
                rest = rest + t
        if ok and lin != 0:
            return v, Rat(-rest, Poly.const(lin))
    return None
