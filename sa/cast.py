"""E5 - clang JSON AST front end for the C extension (specpart.c / specpart_wrap.c).

The AST is produced by `clang -fsyntax-only -Xclang -ast-dump=json` on the repository's
*current* sources on every run (digest-keyed cache under /verif/.cache, rebuilt when absent).
Nothing is compiled or executed.
"""
import bisect
import glob
import hashlib
import json
import os
import subprocess

from .report import AnalysisError, VERIF

CACHE = os.path.join(VERIF, ".cache")


def _include_dirs():
    dirs = []
    cands = sorted(glob.glob("/root/.pyenv/versions/3.12*/include/python3.12")) + \
        sorted(glob.glob("/root/.pyenv/versions/*/include/python3.1[0-9]")) + sorted(glob.glob("/usr/include/python3*"))
    for c in cands:
        if os.path.exists(os.path.join(c, "Python.h")):
            dirs.append(c)
            break
    for c in sorted(glob.glob("/venv/lib/python3*/site-packages/numpy/_core/include")) + \
            sorted(glob.glob("/venv/lib/python3*/site-packages/numpy/core/include")) + \
            sorted(glob.glob("/opt/veriftools/pyvenv/lib/python3*/site-packages/numpy/_core/include")):
        if os.path.exists(os.path.join(c, "numpy", "arrayobject.h")):
            dirs.append(c)
            break
    return dirs


def _dump(path, filt=None, includes=()):
    src = open(path, "rb").read()
    hdr = b""
    d = os.path.dirname(path)
    for h in sorted(glob.glob(os.path.join(d, "*.h"))):
        hdr += open(h, "rb").read()
    key = hashlib.sha256(src + hdr + repr((filt, tuple(includes))).encode()).hexdigest()[:24]
    cpath = os.path.join(CACHE, f"{os.path.basename(path)}.{key}.json")
    if os.path.exists(cpath):
        try:
            return open(cpath).read()
        except OSError:
            pass
    cmd = ["clang", "-fsyntax-only", "-w"]
    for i in includes:
        cmd += ["-I", i]
    cmd += ["-Xclang", "-ast-dump=json"]
    if filt:
        cmd += ["-Xclang", f"-ast-dump-filter={filt}"]
    cmd.append(path)
    p = subprocess.run(cmd, capture_output=True, text=True)
    if p.returncode != 0 or not p.stdout.strip():
        raise AnalysisError(f"clang could not parse {path}: {p.stderr.strip()[:400]}")
    try:
        os.makedirs(CACHE, exist_ok=True)
        with open(cpath + ".tmp", "w") as fh:
            fh.write(p.stdout)
        os.replace(cpath + ".tmp", cpath)
    except OSError:
        pass
    return p.stdout


def _normalise(node):
    """AST normalisation: `x += 1` / `x -= 1` are the same statements as `++x` / `--x` (one spelling for every rule)."""
    stack = [node]
    while stack:
        n = stack.pop()
        if not isinstance(n, dict):
            continue
        inner = n.get("inner") or []
        if n.get("kind") == "CompoundAssignOperator" and n.get("opcode") in ("+=", "-=") and len(inner) == 2:
            r = inner[1]
            while isinstance(r, dict) and r.get("kind") in ("ImplicitCastExpr", "ParenExpr") and r.get("inner"):
                r = r["inner"][0]
            if isinstance(r, dict) and r.get("kind") == "IntegerLiteral" and str(r.get("value")) == "1":
                n["kind"] = "UnaryOperator"
                n["opcode"] = "++" if n["opcode"] == "+=" else "--"
                n["isPostfix"] = False
                n["inner"] = [inner[0]]
                inner = n["inner"]
        stack.extend(inner)


# locals of the C sources as they were when the rules were written: the rules use some of them as anchors (i, j, k in ptnghb; ip, ipp in
# pt_fld), so only locals introduced LATER (hoisted sub-expressions, row pointers, cached sizes) are propagated away
KNOWN_C_LOCALS = frozenset("""args data diff dims ep1 fact i iaddr iang ic_dist ic_label iempty ifict_pixel ifreq ih ihmax iihmax imd imi imo in ind init
iorder ip ipart ipartout ipp ippp ipt iq iq_end iq_start iv iwshed j jl jn k m mask min msave n nk nnspec nth numv self size spec specin zmax zmin
zp zpmax""".split())
_PURE_CALLS = {"PyArray_DIMS", "PyArray_DATA", "PyArray_NDIM", "PyArray_SHAPE", "PyArray_DIM"}


def _jwalk(n):
    stack = [n]
    while stack:
        x = stack.pop()
        if isinstance(x, dict):
            yield x
            stack.extend(reversed(x.get("inner") or []))


def _jcopy(n):
    if isinstance(n, dict):
        return {k: _jcopy(v) for k, v in n.items() if k != "_p"}
    if isinstance(n, list):
        return [_jcopy(x) for x in n]
    return n


def _strip_j(n):
    while isinstance(n, dict) and n.get("kind") in ("ImplicitCastExpr", "ParenExpr", "CStyleCastExpr", "ConstantExpr") and n.get("inner"):
        n = n["inner"][-1]
    return n


def _split_decl_inits(fn):
    """AST normalisation: `int mask = -2;` inside a block is stored as `int mask; mask = -2;` (declaration, then an assignment statement at
    the same place) - "initialise where declared" and "declare, then assign" are one program for non-static scalars and pointers."""
    n_ = 0
    for blk in list(_jwalk(fn)):
        if blk.get("kind") != "CompoundStmt":
            continue
        inner = blk.get("inner") or []
        out = []
        for st in inner:
            out.append(st)
            if not (isinstance(st, dict) and st.get("kind") == "DeclStmt") or st.get("_inl"):
                continue
            for vd in st.get("inner") or []:
                if not (isinstance(vd, dict) and vd.get("kind") == "VarDecl" and vd.get("init") == "c" and vd.get("inner")):
                    continue
                qt = vd.get("type", {}).get("qualType", "")
                if vd.get("storageClass") == "static" or "[" in qt or vd.get("_inl"):
                    continue
                init = vd["inner"][-1]
                if _strip_j(init).get("kind") == "InitListExpr":
                    continue
                rng = vd.get("range", st.get("range", {}))
                ref = {"kind": "DeclRefExpr", "type": vd.get("type", {}), "valueCategory": "lvalue", "range": rng,
                       "referencedDecl": {"id": vd["id"], "kind": "VarDecl", "name": vd.get("name"), "type": vd.get("type", {})}}
                asg = {"kind": "BinaryOperator", "opcode": "=", "type": vd.get("type", {}), "valueCategory": "rvalue", "range": init.get("range", rng),
                       "inner": [ref, init], "_declinit": True}
                vd["inner"] = vd["inner"][:-1]
                vd.pop("init", None)
                if not vd["inner"]:
                    vd.pop("inner")
                out.append(asg)
                n_ += 1
        blk["inner"] = out
    return n_


def _inline_enum_constants(roots):
    """AST normalisation: a reference to an enumerator (`enum { PT_MASK = -2 }` .. `imo[ip] = PT_MASK`) is read as the integer it names:
    a marker value written as a literal, as a never-modified local or as an enumerator is one program."""
    vals = {}
    for r in roots:
        for n in _jwalk(r):
            if n.get("kind") == "EnumDecl":
                nxt = 0
                for e in n.get("inner") or []:
                    if not (isinstance(e, dict) and e.get("kind") == "EnumConstantDecl"):
                        continue
                    v = None
                    for x in _jwalk(e):
                        if x.get("kind") == "ConstantExpr" and "value" in x:
                            try:
                                v = int(x["value"])
                            except (TypeError, ValueError):
                                v = None
                            break
                    if v is None:
                        v = nxt
                    vals[e["id"]] = v
                    nxt = v + 1
    if not vals:
        return 0
    n_ = 0
    for r in roots:
        for n in _jwalk(r):
            inner = n.get("inner")
            if not inner:
                continue
            for i, c in enumerate(inner):
                if isinstance(c, dict) and c.get("kind") == "DeclRefExpr" and c.get("referencedDecl", {}).get("kind") == "EnumConstantDecl" \
                        and c["referencedDecl"].get("id") in vals:
                    v = vals[c["referencedDecl"]["id"]]
                    lit = {"kind": "IntegerLiteral", "value": str(abs(v)), "type": {"qualType": "int"}, "valueCategory": "prvalue", "range": c.get("range", {})}
                    if v < 0:
                        lit = {"kind": "UnaryOperator", "opcode": "-", "isPostfix": False, "type": {"qualType": "int"}, "valueCategory": "prvalue",
                               "range": c.get("range", {}), "inner": [lit]}
                    inner[i] = lit
                    n_ += 1
    return n_


def _propagate_locals(fn):
    """AST normalisation (copy propagation): a local scalar / pointer that is defined exactly once, by an expression whose operands
    cannot change between the definition and the uses, is replaced by that expression at its uses and the definition is dropped:
    `base = 9*n; .. neigh[k + base]`  ==  `neigh[k + 9*n]`,   `row = neigh + 9*jl; .. row[jn]`  ==  `(neigh + 9*jl)[jn]`.
    Operands allowed: literals; variables that are never assigned in the function after the definition point except as the
    control variable of a `for` loop that encloses the definition; elements of arrays that the function never stores to;
    calls of pure numpy accessors.  Applied to a fixed point (a propagated local may feed another)."""
    body = next((c for c in fn.get("inner", []) if isinstance(c, dict) and c.get("kind") == "CompoundStmt"), None)
    if body is None:
        return 0
    total = 0
    for _ in range(6):
        # definitions and writes
        decls = {}
        for n in _jwalk(body):
            if n.get("kind") == "VarDecl" and n.get("storageClass") != "static":
                decls[n["id"]] = n
        writes, stores, defs = {}, set(), {}
        wofs = {}            # variable id -> offsets of its writes
        parents = {}

        def _off(n_):
            # position in the (normalised) tree, not in the source text: inlined helper bodies sit where they execute
            return n_.get("_pb", -1)
        for n in _jwalk(body):
            for c in n.get("inner") or []:
                if isinstance(c, dict):
                    parents[id(c)] = n
        for n in _jwalk(body):
            k = n.get("kind")
            if k in ("BinaryOperator", "CompoundAssignOperator") and n.get("opcode", "").endswith("=") and n.get("opcode") not in ("==", "!=", "<=", ">="):
                lhs = _strip_j(n["inner"][0])
                if lhs.get("kind") == "DeclRefExpr":
                    vid = lhs["referencedDecl"]["id"]
                    writes[vid] = writes.get(vid, 0) + 1
                    wofs.setdefault(vid, []).append(_off(n))
                    if k == "BinaryOperator" and n.get("opcode") == "=":
                        defs.setdefault(vid, []).append(n)
                    else:
                        writes[vid] += 5
                else:
                    b = lhs
                    while b.get("kind") in ("ArraySubscriptExpr", "UnaryOperator", "MemberExpr") and b.get("inner"):
                        b = _strip_j(b["inner"][0])
                    if b.get("kind") == "DeclRefExpr":
                        stores.add(b["referencedDecl"]["id"])
            elif k == "UnaryOperator" and n.get("opcode") in ("++", "--"):
                t = _strip_j(n["inner"][0])
                if t.get("kind") == "DeclRefExpr":
                    writes[t["referencedDecl"]["id"]] = writes.get(t["referencedDecl"]["id"], 0) + 5
            elif k == "UnaryOperator" and n.get("opcode") == "&":
                t = _strip_j(n["inner"][0])
                if t.get("kind") == "DeclRefExpr":
                    # address taken (out-parameter of a call, e.g. PyArg_ParseTuple(.., &arr)): one write, at that point
                    writes[t["referencedDecl"]["id"]] = writes.get(t["referencedDecl"]["id"], 0) + 1
                    wofs.setdefault(t["referencedDecl"]["id"], []).append(_off(n))
        for vid, d in decls.items():
            if len(d.get("inner") or []) >= 1 and d.get("init"):
                writes[vid] = writes.get(vid, 0) + 1
                defs.setdefault(vid, []).append(d)
        # loop control variables: for (v = ..; ..; v++)
        def loopvars_enclosing(node):
            out = set()
            p = parents.get(id(node))
            while p is not None:
                if p.get("kind") == "ForStmt":
                    ini = p["inner"][0]
                    if isinstance(ini, dict) and ini.get("kind"):
                        for x in _jwalk(ini):
                            if x.get("kind") == "DeclRefExpr":
                                out.add(x["referencedDecl"]["id"])
                                break
                            if x.get("kind") == "VarDecl":
                                out.add(x["id"])
                                break
                p = parents.get(id(p))
            return out
        done = 0
        for vid, dl in defs.items():
            if vid not in decls or writes.get(vid, 0) != 1 or len(dl) != 1:
                continue
            if decls[vid].get("name") in KNOWN_C_LOCALS:
                continue
            d = dl[0]
            rhs = d["inner"][-1] if d.get("kind") == "VarDecl" else d["inner"][1]
            stmt = d if d.get("kind") != "VarDecl" else parents.get(id(d))
            # the defining statement must be a statement of its own (not nested in another expression, e.g. `a = b = e`)
            par = parents.get(id(stmt))
            if par is None or par.get("kind") not in ("CompoundStmt",):
                continue
            if d.get("kind") == "VarDecl" and len([c for c in stmt.get("inner", []) if isinstance(c, dict)]) != 1:
                continue
            lv = loopvars_enclosing(stmt)
            ok = True
            for x in _jwalk(rhs):
                k = x.get("kind")
                if k == "DeclRefExpr":
                    rid = x["referencedDecl"]["id"]
                    rk = x["referencedDecl"].get("kind")
                    if rk == "FunctionDecl":
                        if x["referencedDecl"].get("name") not in _PURE_CALLS:
                            ok = False
                    elif rid == vid:
                        ok = False
                    elif rid in lv:
                        pass
                    elif rid not in decls and writes.get(rid, 0) >= 1 and wofs.get(rid) and min(wofs[rid]) >= 0 and max(wofs[rid]) < _off(stmt) \
                            and writes.get(rid, 0) == len(wofs[rid]):
                        # a file-scope object written in this function only BEFORE the definition (neigh = malloc(..) ahead of the loop
                        # in which  row = neigh + 9*n  is defined): at every use after the definition it still holds that value
                        pass
                    elif writes.get(rid, 0) > (1 if rid in decls else 0):
                        ok = False          # operand assigned more than once / modified: not provably stable
                    elif rid in decls and writes.get(rid, 0) == 1 and not decls[rid].get("init"):
                        # a single write is fine when it lies before the definition in the source (and outside any loop that does
                        # not also contain the definition: checked through the offsets of straight-line wrapper code only)
                        wo = wofs.get(rid, [])
                        if not wo or min(wo) < 0 or max(wo) >= _off(stmt) or loopvars_enclosing(stmt):
                            ok = False
                elif k == "ArraySubscriptExpr":
                    b = _strip_j(x["inner"][0])
                    while b.get("kind") in ("BinaryOperator",) and b.get("inner"):
                        b = _strip_j(b["inner"][0])
                    if b.get("kind") == "DeclRefExpr" and b["referencedDecl"]["id"] in stores:
                        ok = False          # reads an array this function writes
                elif k in ("CallExpr",):
                    cal = _strip_j(x["inner"][0])
                    if not (cal.get("kind") == "DeclRefExpr" and cal["referencedDecl"].get("name") in _PURE_CALLS):
                        ok = False
                elif k in ("UnaryOperator",) and x.get("opcode") in ("++", "--", "&", "*"):
                    ok = False
            if not ok:
                continue
            # substitute at every use
            uses = 0
            for n in _jwalk(body):
                inner = n.get("inner") or []
                for i, c in enumerate(inner):
                    if isinstance(c, dict) and c.get("kind") == "DeclRefExpr" and c["referencedDecl"]["id"] == vid and not (n is d):
                        if n.get("kind") in ("BinaryOperator",) and n.get("opcode") == "=" and i == 0:
                            continue
                        inner[i] = {"kind": "ParenExpr", "inner": [_jcopy(rhs)], "range": c.get("range", {}), "type": c.get("type", {})}
                        uses += 1
            # drop the definition
            lst = par["inner"]
            if stmt in lst:
                lst.remove(stmt)
            done += 1
        total += done
        if not done:
            break
    return total


def _inline_void_helpers(roots):
    """AST normalisation: a call statement `helper();` of a parameterless void function defined in the same file is replaced by the
    helper's body (extract-function refactorings of an initialisation sequence)."""
    funcs = {}
    for r in roots:
        tops = r.get("inner", []) if r.get("kind") == "TranslationUnitDecl" else [r]
        for n in tops:
            if n.get("kind") == "FunctionDecl" and any(c.get("kind") == "CompoundStmt" for c in n.get("inner", [])):
                if not any(c.get("kind") == "ParmVarDecl" for c in n.get("inner", [])) and n.get("type", {}).get("qualType", "").startswith("void"):
                    funcs[n["name"]] = n
    count = 0

    def helper_of(c):
        if isinstance(c, dict) and c.get("kind") == "CallExpr" and len(c.get("inner", [])) == 1:
            cal = _strip_j(c["inner"][0])
            nm = cal.get("referencedDecl", {}).get("name") if cal.get("kind") == "DeclRefExpr" else None
            h = funcs.get(nm)
            if h is not None and nm not in ("partinit", "ptnghb") and not any(x.get("kind") == "ReturnStmt" for x in _jwalk(h)) and not any(
                    x.get("kind") == "CallExpr" and _strip_j(x["inner"][0]).get("referencedDecl", {}).get("name") == nm for x in _jwalk(h)):
                return nm, h
        return None, None
    used = set()
    # unbraced bodies:  if (c) helper();   for (..) helper();
    for r in roots:
        for n in _jwalk(r):
            if n.get("kind") in ("IfStmt", "ForStmt", "WhileStmt", "DoStmt"):
                inner = n.get("inner") or []
                for i, c in enumerate(inner):
                    nm, h = helper_of(c)
                    if h is not None:
                        hb = next(x for x in h["inner"] if x.get("kind") == "CompoundStmt")
                        inner[i] = {"kind": "CompoundStmt", "inner": [_jcopy(x) for x in hb.get("inner", [])], "range": c.get("range", {})}
                        used.add(nm)
                        count += 1
    for r in roots:
        for n in _jwalk(r):
            if n.get("kind") != "CompoundStmt":
                continue
            inner = n.get("inner") or []
            i = 0
            while i < len(inner):
                c = inner[i]
                if isinstance(c, dict) and c.get("kind") == "CallExpr" and len(c.get("inner", [])) == 1:
                    cal = _strip_j(c["inner"][0])
                    nm = cal.get("referencedDecl", {}).get("name") if cal.get("kind") == "DeclRefExpr" else None
                    h = funcs.get(nm)
                    if h is not None and nm not in ("partinit", "ptnghb") and not any(
                            x.get("kind") == "ReturnStmt" for x in _jwalk(h)) and not any(
                            x.get("kind") == "CallExpr" and _strip_j(x["inner"][0]).get("referencedDecl", {}).get("name") == nm for x in _jwalk(h)):
                        hb = next(x for x in h["inner"] if x.get("kind") == "CompoundStmt")
                        new = [_jcopy(x) for x in hb.get("inner", [])]
                        inner[i:i + 1] = new
                        count += 1
                        used.add(nm)
                        i += len(new)
                        continue
                i += 1
    # a helper that is no longer called anywhere has become part of its callers: drop its definition
    still = set()
    for r in roots:
        for n in _jwalk(r):
            if n.get("kind") == "CallExpr":
                cal = _strip_j(n["inner"][0])
                if cal.get("kind") == "DeclRefExpr":
                    still.add(cal.get("referencedDecl", {}).get("name"))
    for r in roots:
        if r.get("kind") == "TranslationUnitDecl":
            r["inner"] = [n for n in r.get("inner", []) if not (n.get("kind") == "FunctionDecl" and n.get("name") in used and n.get("name") not in still)]
    return count


# functions of the C sources as they were when the rules were written (rule anchors): never inlined by _inline_param_helpers
KNOWN_C_FUNCS = frozenset("""partition partinit ptnghb ptsort pt_fld fifo_add fifo_empty fifo_first int_minval specpart PyInit_specpart
main""".split())


def _written_params(body, pids):
    out = set()
    for n in _jwalk(body):
        k = n.get("kind")
        if k in ("BinaryOperator", "CompoundAssignOperator") and n.get("opcode", "").endswith("=") and n.get("opcode") not in ("==", "!=", "<=", ">="):
            lhs = _strip_j(n["inner"][0])
            if lhs.get("kind") == "DeclRefExpr" and lhs["referencedDecl"]["id"] in pids:
                out.add(lhs["referencedDecl"]["id"])
        elif k == "UnaryOperator" and n.get("opcode") in ("++", "--", "&"):
            t = _strip_j(n["inner"][0])
            if t.get("kind") == "DeclRefExpr" and t["referencedDecl"]["id"] in pids:
                out.add(t["referencedDecl"]["id"])
    return out


def _inline_param_helpers(roots, in_main=lambda n: True):
    """AST normalisation: a call of a function that did not exist when the rules were written (an extract-function refactoring of a
    loop body or a code block, with parameters) is replaced by the callee's body with the parameters bound to the arguments:
      * `h(.., &v, ..)` with a pointer parameter p:  `*p` becomes `v`, a bare `p` becomes `&v`;
      * a parameter the body never writes becomes the argument expression when that is a variable, a literal or `&v`, otherwise a
        fresh local initialised with the argument;
      * a parameter the body writes: `v = h(.., v, ..)` with `return p;` as the last statement binds p to v itself; any other use gets
        a fresh local copy;
      * `lhs = h(..)` / `h(..);` are the two call forms handled; the only `return` is the callee's last statement.
    The callee's own locals keep their names (name-keyed analyses then join them with same-named caller locals: an over-approximation);
    their assignments are flagged `_inl` so that they never kill a caller's definition in the reaching-definitions refinement.
    Anything outside this (recursion, several returns, calls nested in expressions) is left as a call and the rules see the call."""
    funcs = {}
    for r in roots:
        tops = r.get("inner", []) if r.get("kind") == "TranslationUnitDecl" else [r]
        for n in tops:
            if n.get("kind") == "FunctionDecl" and n.get("name") not in KNOWN_C_FUNCS and in_main(n) and any(
                    isinstance(c, dict) and c.get("kind") == "CompoundStmt" for c in n.get("inner", [])):
                if any(isinstance(c, dict) and c.get("kind") == "ParmVarDecl" for c in n.get("inner", [])):
                    funcs[n["name"]] = n
    if not funcs:
        return 0
    uid = [0]

    def callee_name(c):
        if isinstance(c, dict) and c.get("kind") == "CallExpr" and c.get("inner"):
            cal = _strip_j(c["inner"][0])
            if cal.get("kind") == "DeclRefExpr":
                return cal.get("referencedDecl", {}).get("name")
        return None

    def eligible(h):
        body = next(x for x in h["inner"] if isinstance(x, dict) and x.get("kind") == "CompoundStmt")
        rets = [x for x in _jwalk(body) if x.get("kind") == "ReturnStmt"]
        stmts = [x for x in body.get("inner") or [] if isinstance(x, dict)]
        if len(rets) > 1 or (rets and (not stmts or stmts[-1] is not rets[0])):
            return None
        if any(callee_name(x) == h["name"] for x in _jwalk(body)):
            return None
        if any(x.get("kind") in ("GotoStmt", "LabelStmt") or (x.get("kind") == "VarDecl" and x.get("storageClass") == "static") for x in _jwalk(body)):
            return None
        return body

    def simple_arg(a):
        a0 = _strip_j(a)
        if a0.get("kind") in ("DeclRefExpr", "IntegerLiteral", "FloatingLiteral"):
            return True
        return False

    def addr_of_var(a):
        a0 = _strip_j(a)
        if a0.get("kind") == "UnaryOperator" and a0.get("opcode") == "&":
            t = _strip_j(a0["inner"][0])
            if t.get("kind") == "DeclRefExpr":
                return t
        return None

    def expand(h, call, lhs, rng):
        """-> list of statements replacing the call statement, or None."""
        body = eligible(h)
        if body is None:
            return None
        params = [c for c in h["inner"] if isinstance(c, dict) and c.get("kind") == "ParmVarDecl"]
        args = call["inner"][1:]
        if len(args) != len(params):
            return None
        pids = {p_["id"] for p_ in params}
        written = _written_params(body, pids)
        new = _jcopy(body)
        stmts = [x for x in new.get("inner") or [] if isinstance(x, dict)]
        ret = stmts[-1] if stmts and stmts[-1].get("kind") == "ReturnStmt" else None
        ret_expr = ret["inner"][0] if ret is not None and ret.get("inner") else None
        if ret is not None:
            stmts = stmts[:-1]
        uid[0] += 1
        pre = []
        bind = {}       # pid -> ("expr", node) | ("addr", declref of v) | ("var", declref)
        drop_return = False
        for p_, a in zip(params, args):
            pid = p_["id"]
            av = addr_of_var(a)
            if av is not None and pid not in written:
                bind[pid] = ("addr", av, a)
                continue
            a0 = _strip_j(a)
            if pid not in written and simple_arg(a):
                bind[pid] = ("expr", a0)
                continue
            if pid in written and a0.get("kind") == "DeclRefExpr" and lhs is not None and ret_expr is not None:
                l0, r0 = _strip_j(lhs), _strip_j(ret_expr)
                if l0.get("kind") == "DeclRefExpr" and l0["referencedDecl"]["id"] == a0["referencedDecl"]["id"] and \
                        r0.get("kind") == "DeclRefExpr" and r0["referencedDecl"]["id"] == pid:
                    bind[pid] = ("expr", a0)
                    drop_return = True
                    continue
            # fresh local copy
            nid = f"inl{uid[0]}_{pid}"
            nm = f"{h['name']}__{p_['name']}"
            vd = {"kind": "VarDecl", "id": nid, "name": nm, "type": p_.get("type", {}), "init": "c", "inner": [_jcopy(a)], "range": rng, "_inl": True}
            pre.append({"kind": "DeclStmt", "inner": [vd], "range": rng, "_inl": True})
            ref = {"kind": "DeclRefExpr", "type": p_.get("type", {}), "valueCategory": "lvalue", "range": rng,
                   "referencedDecl": {"id": nid, "kind": "VarDecl", "name": nm, "type": p_.get("type", {})}}
            bind[pid] = ("expr", ref)

        def sub(n):
            if not isinstance(n, dict):
                return n
            k = n.get("kind")
            if k == "UnaryOperator" and n.get("opcode") == "*":
                t = _strip_j(n["inner"][0])
                if t.get("kind") == "DeclRefExpr" and bind.get(t["referencedDecl"]["id"], ("",))[0] == "addr":
                    return _jcopy(bind[t["referencedDecl"]["id"]][1])
            if k == "DeclRefExpr" and n.get("referencedDecl", {}).get("id") in bind:
                b = bind[n["referencedDecl"]["id"]]
                if b[0] == "addr":
                    return _jcopy(_strip_j(b[2]))
                return _jcopy(b[1])
            if n.get("inner"):
                n["inner"] = [sub(c) for c in n["inner"]]
            return n
        stmts = [sub(x) for x in stmts]
        if ret_expr is not None:
            ret_expr = sub(ret_expr)
        for x in stmts:
            for y in _jwalk(x):
                y["_inl"] = True
        out = pre + stmts
        if ret_expr is not None and not drop_return:
            if lhs is not None:
                out.append({"kind": "BinaryOperator", "opcode": "=", "type": lhs.get("type", {}), "valueCategory": "prvalue", "range": rng,
                            "inner": [_jcopy(lhs), ret_expr]})
            elif any(x.get("kind") in ("CallExpr",) or (x.get("kind") == "UnaryOperator" and x.get("opcode") in ("++", "--")) or
                     (x.get("kind") in ("BinaryOperator", "CompoundAssignOperator") and x.get("opcode", "").endswith("=") and
                      x.get("opcode") not in ("==", "!=", "<=", ">=")) for x in _jwalk(ret_expr)):
                out.append(ret_expr)
        return out

    def as_call_stmt(c):
        """-> (call node, lhs or None) when statement c is `h(..);` or `lhs = h(..);` with h inlinable."""
        if not isinstance(c, dict):
            return None, None
        c0 = c
        while c0.get("kind") in ("ParenExpr",) and c0.get("inner"):
            c0 = c0["inner"][0]
        if c0.get("kind") == "CallExpr" and callee_name(c0) in funcs:
            return c0, None
        if c0.get("kind") == "BinaryOperator" and c0.get("opcode") == "=" and len(c0.get("inner", [])) == 2:
            r = _strip_j(c0["inner"][1])
            if r.get("kind") == "CallExpr" and callee_name(r) in funcs:
                return r, c0["inner"][0]
        return None, None
    count = 0
    used = set()
    for _round in range(4):
        did = 0
        for r in roots:
            for n in list(_jwalk(r)):
                k = n.get("kind")
                inner = n.get("inner") or []
                if k == "CompoundStmt":
                    i = 0
                    while i < len(inner):
                        call, lhs = as_call_stmt(inner[i])
                        if call is not None:
                            out = expand(funcs[callee_name(call)], call, lhs, inner[i].get("range", {}))
                            if out is not None:
                                used.add(callee_name(call))
                                inner[i:i + 1] = out
                                i += len(out)
                                did += 1
                                continue
                        i += 1
                elif k in ("IfStmt", "ForStmt", "WhileStmt", "DoStmt"):
                    for i, c in enumerate(inner):
                        if k == "ForStmt" and i < 4:
                            continue
                        if k in ("IfStmt", "WhileStmt") and i == 0:
                            continue
                        call, lhs = as_call_stmt(c)
                        if call is not None:
                            out = expand(funcs[callee_name(call)], call, lhs, c.get("range", {}))
                            if out is not None:
                                used.add(callee_name(call))
                                inner[i] = {"kind": "CompoundStmt", "inner": out, "range": c.get("range", {})}
                                did += 1
        count += did
        if not did:
            break
    still = set()
    for r in roots:
        for n in _jwalk(r):
            nm = callee_name(n)
            if nm:
                still.add(nm)
    for r in roots:
        if r.get("kind") == "TranslationUnitDecl":
            r["inner"] = [n for n in r.get("inner", []) if not (n.get("kind") == "FunctionDecl" and n.get("name") in used and n.get("name") not in still)]
    return count


def _induction_pointers(fn):
    """AST normalisation (induction-variable substitution): a local running pointer
        T *p = base;  for (i = 0; i < N1; i++) for (j = 0; j < N2; j++) { .. *p++ .. }
    that is advanced exactly once per innermost iteration of a perfect nest of counted loops, and used nowhere else, addresses
    base[j + N2*i]; the dereference is rewritten to that subscript and the pointer disappears.  Anything else is left alone (and the
    rules that need to see every access of a buffer then fail closed on the alias)."""
    body = next((c for c in fn.get("inner", []) if isinstance(c, dict) and c.get("kind") == "CompoundStmt"), None)
    if body is None:
        return 0
    parents = {}
    for n in _jwalk(body):
        for c in n.get("inner") or []:
            if isinstance(c, dict):
                parents[id(c)] = n

    def counted(loop):
        inner = loop.get("inner") or []
        if len(inner) != 5 or not all(isinstance(inner[i], dict) and inner[i].get("kind") for i in (0, 2, 3, 4)):
            return None
        ini, cond, inc = inner[0], _strip_j(inner[2]), _strip_j(inner[3])
        ini = _strip_j(ini)
        if not (ini.get("kind") == "BinaryOperator" and ini.get("opcode") == "="):
            return None
        v, z = _strip_j(ini["inner"][0]), _strip_j(ini["inner"][1])
        if v.get("kind") != "DeclRefExpr" or not (z.get("kind") == "IntegerLiteral" and str(z.get("value")) == "0"):
            return None
        vid = v["referencedDecl"]["id"]
        if not (cond.get("kind") == "BinaryOperator" and cond.get("opcode") == "<"):
            return None
        cl, cr = _strip_j(cond["inner"][0]), _strip_j(cond["inner"][1])
        if not (cl.get("kind") == "DeclRefExpr" and cl["referencedDecl"]["id"] == vid and cr.get("kind") in ("DeclRefExpr", "IntegerLiteral")):
            return None
        if not (inc.get("kind") == "UnaryOperator" and inc.get("opcode") == "++"):
            return None
        it = _strip_j(inc["inner"][0])
        if not (it.get("kind") == "DeclRefExpr" and it["referencedDecl"]["id"] == vid):
            return None
        return v, cr

    def assigned_in(node, rid):
        for x in _jwalk(node):
            k = x.get("kind")
            if k in ("BinaryOperator", "CompoundAssignOperator") and x.get("opcode", "").endswith("=") and x.get("opcode") not in ("==", "!=", "<=", ">="):
                t = _strip_j(x["inner"][0])
                if t.get("kind") == "DeclRefExpr" and t["referencedDecl"]["id"] == rid:
                    return True
            if k == "UnaryOperator" and x.get("opcode") in ("++", "--", "&"):
                t = _strip_j(x["inner"][0])
                if t.get("kind") == "DeclRefExpr" and t["referencedDecl"]["id"] == rid:
                    return True
        return False
    done = 0
    for vd in [n for n in _jwalk(body) if n.get("kind") == "VarDecl" and n.get("init") and n.get("inner")
               and "*" in n.get("type", {}).get("qualType", "") and n.get("storageClass") != "static"]:
        pid = vd["id"]
        dstmt = parents.get(id(vd))
        if dstmt is None or dstmt.get("kind") != "DeclStmt" or len([c for c in dstmt["inner"] if isinstance(c, dict)]) != 1:
            continue
        block = parents.get(id(dstmt))
        if block is None or block.get("kind") != "CompoundStmt":
            continue
        refs = [n for n in _jwalk(body) if n.get("kind") == "DeclRefExpr" and n.get("referencedDecl", {}).get("id") == pid]
        if len(refs) != 1:
            continue
        ref = refs[0]
        # ref -> (casts) -> p++ -> (casts/parens) -> *(..)
        inc = parents.get(id(ref))
        while inc is not None and inc.get("kind") in ("ImplicitCastExpr", "ParenExpr"):
            inc = parents.get(id(inc))
        if inc is None or not (inc.get("kind") == "UnaryOperator" and inc.get("opcode") == "++" and inc.get("isPostfix")):
            continue
        der = parents.get(id(inc))
        while der is not None and der.get("kind") in ("ImplicitCastExpr", "ParenExpr"):
            der = parents.get(id(der))
        if der is None or not (der.get("kind") == "UnaryOperator" and der.get("opcode") == "*"):
            continue
        # the statement holding the dereference is a top-level statement of the innermost loop body
        st = der
        while parents.get(id(st)) is not None and parents[id(st)].get("kind") not in ("CompoundStmt", "ForStmt", "IfStmt", "WhileStmt", "DoStmt"):
            st = parents[id(st)]
        holder = parents.get(id(st))
        loop = holder if holder is not None and holder.get("kind") == "ForStmt" else parents.get(id(holder)) if holder is not None else None
        if holder is None or holder.get("kind") not in ("CompoundStmt", "ForStmt") or loop is None or loop.get("kind") != "ForStmt":
            continue
        if holder.get("kind") == "ForStmt" and holder["inner"][4] is not st:
            continue
        if holder.get("kind") == "CompoundStmt" and loop["inner"][4] is not holder:
            continue
        nest = []
        cur = loop
        ok = True
        while True:
            cl = counted(cur)
            if cl is None:
                ok = False
                break
            nest.append((cur, cl))
            up = parents.get(id(cur))
            if up is block:
                break
            if up is not None and up.get("kind") == "CompoundStmt" and len([c for c in up["inner"] if isinstance(c, dict)]) == 1:
                up2 = parents.get(id(up))
            else:
                up2 = up
            if up2 is None or up2.get("kind") != "ForStmt" or up2["inner"][4] is not (up if up2 is not up else cur):
                ok = False
                break
            cur = up2
        if not ok:
            continue
        outer = nest[-1][0]
        if any(x.get("kind") in ("BreakStmt", "ContinueStmt", "ReturnStmt", "GotoStmt") for x in _jwalk(outer)):
            continue
        # declaration precedes the nest in the same block; bounds and loop variables are not modified inside the nest
        sib = [c for c in block["inner"] if isinstance(c, dict)]
        if dstmt not in sib or outer not in sib or sib.index(dstmt) > sib.index(outer):
            continue
        bad = False
        for lp, (v, bound) in nest:
            if bound.get("kind") == "DeclRefExpr" and assigned_in(outer, bound["referencedDecl"]["id"]):
                bad = True
            if assigned_in(lp["inner"][4], v["referencedDecl"]["id"]):
                bad = True
        base = vd["inner"][-1]
        for x in _jwalk(base):
            if x.get("kind") == "DeclRefExpr" and x["referencedDecl"].get("kind") != "FunctionDecl" and \
                    any(assigned_in(s_, x["referencedDecl"]["id"]) for s_ in sib[sib.index(dstmt) + 1: sib.index(outer) + 1]):
                bad = True
        if bad:
            continue
        ity = {"qualType": "int"}
        rng = der.get("range", {})

        def rv(d):
            return {"kind": "ImplicitCastExpr", "castKind": "LValueToRValue", "type": ity, "valueCategory": "prvalue", "range": rng, "inner": [_jcopy(d)]}
        idx = None
        for lp, (v, bound) in reversed(nest):        # outermost first
            term = rv(v)
            if idx is None:
                idx = term
            else:
                b_ = rv(bound) if bound.get("kind") == "DeclRefExpr" else _jcopy(bound)
                mul = {"kind": "BinaryOperator", "opcode": "*", "type": ity, "valueCategory": "prvalue", "range": rng, "inner": [b_, idx]}
                idx = {"kind": "BinaryOperator", "opcode": "+", "type": ity, "valueCategory": "prvalue", "range": rng, "inner": [term, mul]}
        der["kind"] = "ArraySubscriptExpr"
        der.pop("opcode", None)
        der.pop("isPostfix", None)
        der["inner"] = [_jcopy(base), idx]
        block["inner"].remove(dstmt)
        done += 1
    return done


def _fold_pointer_subscripts(root):
    """AST normalisation: (arr + off)[i]  ==  arr[off + i]   (what a propagated row pointer leaves behind), so every rule sees a plain
    subscript of the array itself."""
    n_ = 0
    for x in _jwalk(root):
        if x.get("kind") != "ArraySubscriptExpr" or len(x.get("inner") or []) != 2:
            continue
        b = _strip_j(x["inner"][0])
        if b.get("kind") == "BinaryOperator" and b.get("opcode") == "+" and len(b.get("inner") or []) == 2:
            l, r = b["inner"]
            ls, rs = _strip_j(l), _strip_j(r)
            ptr = off = None
            if ls.get("kind") == "DeclRefExpr" and "*" in ls.get("type", {}).get("qualType", ""):
                ptr, off = l, r
            elif rs.get("kind") == "DeclRefExpr" and "*" in rs.get("type", {}).get("qualType", ""):
                ptr, off = r, l
            if ptr is not None:
                idx = x["inner"][1]
                x["inner"] = [ptr, {"kind": "BinaryOperator", "opcode": "+", "type": {"qualType": "int"}, "valueCategory": "prvalue",
                                    "range": x.get("range", {}), "inner": [off, idx]}]
                n_ += 1
    return n_


_NEG_OP = {">": "<=", "<=": ">", "<": ">=", ">=": "<", "==": "!=", "!=": "=="}
_CANON_OPS = (">", "<", "!=")          # the orientation a two-way decision is stored in


def _jneg(cond):
    c = cond
    while isinstance(c, dict) and c.get("kind") in ("ParenExpr", "ImplicitCastExpr") and c.get("inner"):
        c = c["inner"][0]
    if c.get("kind") == "BinaryOperator" and c.get("opcode") in _NEG_OP:
        n = dict(c)
        n["opcode"] = _NEG_OP[c["opcode"]]
        return n
    if c.get("kind") == "UnaryOperator" and c.get("opcode") == "!":
        x = c["inner"][0]
        while isinstance(x, dict) and x.get("kind") in ("ParenExpr", "ImplicitCastExpr") and x.get("inner") and x["inner"][0].get("kind") in (
                "ParenExpr", "ImplicitCastExpr", "CallExpr", "BinaryOperator", "DeclRefExpr", "UnaryOperator"):
            x = x["inner"][0]
        return x
    return {"kind": "UnaryOperator", "opcode": "!", "isPostfix": False, "type": {"qualType": "int"}, "valueCategory": "prvalue",
            "range": cond.get("range", {}), "inner": [cond]}


def _ends_with_jump(n):
    if not isinstance(n, dict):
        return False
    if n.get("kind") in ("BreakStmt", "ReturnStmt", "ContinueStmt", "GotoStmt"):
        return True
    if n.get("kind") == "CompoundStmt" and n.get("inner"):
        return _ends_with_jump(n["inner"][-1])
    return False


def _cond_op(cond):
    c = cond
    while isinstance(c, dict) and c.get("kind") in ("ParenExpr", "ImplicitCastExpr") and c.get("inner"):
        c = c["inner"][0]
    if c.get("kind") == "BinaryOperator":
        return c.get("opcode")
    if c.get("kind") == "UnaryOperator" and c.get("opcode") == "!":
        return "!"
    return None


def _normalise_control(root):
    """AST normalisation of control flow (one spelling per decision):
      * `return c ? a : b;`                      ->  `if (c) return a;  return b;`
      * `if (c) A else JUMP`                     ->  `if (!c) JUMP else A`           (the branch that leaves comes first)
      * `if (c) return a;  return b;` with c written with <=, >=, == or !            ->  the complementary test with the returns exchanged
      * `while (1) B`                            ->  `for (;;) B`
      * `i = a;  while (i < n) { B; i++; }`      ->  `for (i = a; i < n; i++) B`     (B without continue)
    """
    count = 0
    for n in list(_jwalk(root)):
        if n.get("kind") != "CompoundStmt":
            continue
        inner = n.get("inner") or []
        i = 0
        while i < len(inner):
            s_ = inner[i]
            if not isinstance(s_, dict):
                i += 1
                continue
            # return c ? a : b
            if s_.get("kind") == "ReturnStmt" and s_.get("inner"):
                e = _strip_j(s_["inner"][0])
                if e.get("kind") == "ConditionalOperator" and len(e.get("inner", [])) == 3:
                    c, a, b = e["inner"]
                    inner[i:i + 1] = [{"kind": "IfStmt", "range": s_.get("range", {}), "inner": [c, {"kind": "ReturnStmt", "range": s_.get("range", {}), "inner": [a]}]},
                                      {"kind": "ReturnStmt", "range": s_.get("range", {}), "inner": [b]}]
                    count += 1
                    continue
            # x = c ? a : b;   ->   if (c) x = a; else x = b;      (lvalue without side effects)
            if s_.get("kind") == "BinaryOperator" and s_.get("opcode") == "=" and len(s_.get("inner") or []) == 2:
                e = _strip_j(s_["inner"][1])
                lhs_ = s_["inner"][0]
                if e.get("kind") == "ConditionalOperator" and len(e.get("inner", [])) == 3 \
                        and not any(x.get("kind") in ("CallExpr", "UnaryOperator") and (x.get("kind") == "CallExpr" or x.get("opcode") in ("++", "--"))
                                    for x in _jwalk(lhs_)):
                    c, a, b = e["inner"]
                    def _asg(v_):
                        return {"kind": "BinaryOperator", "opcode": "=", "type": s_.get("type", {}), "valueCategory": s_.get("valueCategory", "rvalue"),
                                "range": v_.get("range", s_.get("range", {})), "inner": [_jcopy(lhs_), v_]}
                    inner[i] = {"kind": "IfStmt", "range": s_.get("range", {}), "hasElse": True, "inner": [c, _asg(a), _asg(b)]}
                    count += 1
                    continue
            if s_.get("kind") == "IfStmt":
                parts = s_.get("inner") or []
                if len(parts) == 3 and _ends_with_jump(parts[2]) and not _ends_with_jump(parts[1]):
                    s_["inner"] = [_jneg(parts[0]), parts[2], parts[1]]
                    count += 1
                    parts = s_["inner"]
                if len(parts) == 2 and _ends_with_jump(parts[1]) and i + 1 < len(inner) and isinstance(inner[i + 1], dict) \
                        and inner[i + 1].get("kind") == "ReturnStmt" and i + 2 == len(inner):
                    body = parts[1]
                    r1 = body if body.get("kind") == "ReturnStmt" else (body["inner"][0] if body.get("kind") == "CompoundStmt" and len(body.get("inner", [])) == 1 else None)
                    op = _cond_op(parts[0])
                    if r1 is not None and r1.get("kind") == "ReturnStmt" and op is not None and op not in _CANON_OPS:
                        r2 = inner[i + 1]
                        s_["inner"] = [_jneg(parts[0]), r2]
                        inner[i + 1] = r1
                        count += 1
            if s_.get("kind") == "WhileStmt" and len(s_.get("inner") or []) == 2:
                cond, body = s_["inner"]
                c0 = _strip_j(cond)
                if c0.get("kind") == "IntegerLiteral" and str(c0.get("value")) not in ("0",):
                    s_["kind"] = "ForStmt"
                    s_["inner"] = [{}, {}, {}, {}, body]
                    count += 1
                elif body.get("kind") == "CompoundStmt" and body.get("inner") and i > 0 and isinstance(inner[i - 1], dict):
                    init = inner[i - 1]
                    last = body["inner"][-1]
                    i0 = _strip_j(init)
                    l0 = _strip_j(last)
                    var = None
                    if i0.get("kind") == "BinaryOperator" and i0.get("opcode") == "=":
                        v_ = _strip_j(i0["inner"][0])
                        if v_.get("kind") == "DeclRefExpr":
                            var = v_["referencedDecl"]["id"]
                    inc_ok = False
                    if var is not None:
                        if l0.get("kind") == "UnaryOperator" and l0.get("opcode") in ("++",):
                            t_ = _strip_j(l0["inner"][0])
                            inc_ok = t_.get("kind") == "DeclRefExpr" and t_["referencedDecl"]["id"] == var
                        elif l0.get("kind") == "CompoundAssignOperator" and l0.get("opcode") == "+=":
                            t_ = _strip_j(l0["inner"][0])
                            r_ = _strip_j(l0["inner"][1])
                            inc_ok = t_.get("kind") == "DeclRefExpr" and t_["referencedDecl"]["id"] == var and r_.get("kind") == "IntegerLiteral" and str(r_.get("value")) == "1"
                        elif l0.get("kind") == "BinaryOperator" and l0.get("opcode") == "=":
                            t_ = _strip_j(l0["inner"][0])
                            r_ = _strip_j(l0["inner"][1])
                            if t_.get("kind") == "DeclRefExpr" and t_["referencedDecl"]["id"] == var and r_.get("kind") == "BinaryOperator" and r_.get("opcode") == "+":
                                a_, b_ = _strip_j(r_["inner"][0]), _strip_j(r_["inner"][1])
                                inc_ok = a_.get("kind") == "DeclRefExpr" and a_["referencedDecl"]["id"] == var and b_.get("kind") == "IntegerLiteral" and str(b_.get("value")) == "1"
                    cond_uses = var is not None and any(x.get("kind") == "DeclRefExpr" and x.get("referencedDecl", {}).get("id") == var for x in _jwalk(cond))
                    no_continue = not any(x.get("kind") == "ContinueStmt" for x in _jwalk(body))
                    written_else = var is not None and sum(
                        1 for x in _jwalk({"inner": body["inner"][:-1]}) if x.get("kind") in ("BinaryOperator", "CompoundAssignOperator", "UnaryOperator")
                        and x.get("opcode") in ("=", "+=", "-=", "++", "--") and _strip_j(x["inner"][0]).get("referencedDecl", {}).get("id") == var)
                    if inc_ok and cond_uses and no_continue and not written_else:
                        inc_node = last if last.get("kind") in ("UnaryOperator", "CompoundAssignOperator", "BinaryOperator") else l0
                        newbody = dict(body)
                        newbody["inner"] = body["inner"][:-1]
                        s_["kind"] = "ForStmt"
                        s_["inner"] = [init, {}, cond, inc_node, newbody]
                        del inner[i - 1]
                        count += 1
                        continue
            i += 1
    return count


def _rename_c_functions(roots, in_main, fname=None):
    """AST normalisation: a function of the C sources that existed when the rules were written is missing while a new one with the same
    number of parameters is defined - a rename with all call sites (fifo_add -> fifo_push): stored under the old name."""
    import json as _json
    pin = _json.load(open(os.path.join(os.path.dirname(os.path.abspath(__file__)), "pin_tables.json")))["c_functions"].get(fname, {})
    if not pin:
        return 0
    present = {}
    for r in roots:
        tops = r.get("inner", []) if r.get("kind") == "TranslationUnitDecl" else [r]
        for n in tops:
            if n.get("kind") == "FunctionDecl" and in_main(n) and any(isinstance(c, dict) and c.get("kind") == "CompoundStmt" for c in n.get("inner", [])):
                present[n["name"]] = sum(1 for c in n.get("inner", []) if isinstance(c, dict) and c.get("kind") == "ParmVarDecl")
    if not present:
        return 0
    missing = {k: v for k, v in pin.items() if k not in present}
    new = {k: v for k, v in present.items() if k not in pin}
    ren = {}
    for old, ar in missing.items():
        cands = [k for k, a in new.items() if a == ar]
        if len(cands) == 1 and sum(1 for m_, a in missing.items() if a == ar) == 1:
            ren[cands[0]] = old
    if not ren:
        return 0
    for r in roots:
        for n in _jwalk(r):
            if n.get("kind") == "FunctionDecl" and n.get("name") in ren:
                n["name"] = ren[n["name"]]
            rd = n.get("referencedDecl")
            if isinstance(rd, dict) and rd.get("kind") == "FunctionDecl" and rd.get("name") in ren:
                rd["name"] = ren[rd["name"]]
    return len(ren)


def _number(roots):
    """Execution-order positions: `_pb` on entry, `_pe` on exit of every node, in one pre/post-order numbering of the normalised tree.
    Every 'lies between' test of the analyses uses these, never source offsets (an inlined helper body has the offsets of its definition)."""
    c = 0
    for r in roots:
        stack = [(r, False)]
        while stack:
            n, done = stack.pop()
            c += 1
            if done:
                n["_pe"] = c
                continue
            n["_pb"] = c
            stack.append((n, True))
            for ch in reversed(n.get("inner") or []):
                if isinstance(ch, dict):
                    stack.append((ch, False))


def _multi_json(text):
    dec = json.JSONDecoder()
    i, n, out = 0, len(text), []
    while i < n:
        while i < n and text[i] in " \r\n\t":
            i += 1
        if i >= n:
            break
        if text[i] != "{":
            # "Dumping xxx:" banner lines of -ast-dump-filter
            j = text.find("\n", i)
            i = n if j < 0 else j + 1
            continue
        obj, j = dec.raw_decode(text, i)
        out.append(obj)
        i = j
    return out


class CFile:
    def __init__(self, path, filt=None, need_python=False):
        if not os.path.exists(path):
            raise AnalysisError(f"{path} vanished")
        self.path = path
        self.src = open(path, encoding="utf-8", errors="replace").read()
        self._starts = [0]
        for i, ch in enumerate(self.src):
            if ch == "\n":
                self._starts.append(i + 1)
        inc = _include_dirs() if need_python else []
        if need_python and len(inc) < 2:
            raise AnalysisError("Python.h / numpy headers not found for clang")
        roots = _multi_json(_dump(path, filt, inc))
        self.norm_renamed = _rename_c_functions(roots, self._in_main, os.path.basename(path)) if filt is None else 0
        self.norm_control = _inline_enum_constants(roots) if filt is None else 0
        for r in roots:
            tops = r.get("inner", []) if r.get("kind") == "TranslationUnitDecl" else [r]
            for n in tops:
                if n.get("kind") == "FunctionDecl" and self._in_main(n):
                    self.norm_control += _normalise_control(n)
        for r in roots:
            _normalise(r)
        self.norm_inlined = _inline_void_helpers(roots)
        self.norm_inlined += _inline_param_helpers(roots, self._in_main)
        for r in roots:
            tops = r.get("inner", []) if r.get("kind") == "TranslationUnitDecl" else [r]
            for n in tops:
                if n.get("kind") == "FunctionDecl" and self._in_main(n):
                    self.norm_inlined += _induction_pointers(n)
                    self.norm_control += _split_decl_inits(n)
        _number(roots)
        self.norm_propagated = 0
        for r in roots:
            tops = r.get("inner", []) if r.get("kind") == "TranslationUnitDecl" else [r]
            for n in tops:
                if n.get("kind") == "FunctionDecl":
                    self.norm_propagated += _propagate_locals(n)
        for r in roots:
            self.norm_propagated += _fold_pointer_subscripts(r)
        _number(roots)
        self.roots = roots
        self.funcs = {}
        self.globals = []
        self.decls = {}      # clang id -> decl node
        for r in roots:
            tops = r.get("inner", []) if r.get("kind") == "TranslationUnitDecl" else [r]
            for n in tops:
                self._index_top(n)
        for r in roots:
            self._set_parents(r, None)

    def _index_top(self, n):
        k = n.get("kind")
        if k == "FunctionDecl":
            if any(c.get("kind") == "CompoundStmt" for c in n.get("inner", [])):
                if self._in_main(n):
                    self.funcs[n["name"]] = n
        elif k == "VarDecl":
            if self._in_main(n):
                self.globals.append(n)
        for sub in self.walk(n):
            if "id" in sub and sub.get("kind", "").endswith("Decl"):
                self.decls[sub["id"]] = sub

    def _in_main(self, n):
        loc = n.get("loc", {})
        if "includedFrom" in loc or "includedFrom" in loc.get("expansionLoc", {}) or "includedFrom" in loc.get("spellingLoc", {}):
            return False
        rng = n.get("range", {}).get("begin", {})
        if "includedFrom" in rng or "includedFrom" in rng.get("expansionLoc", {}):
            return False
        f = loc.get("file") or loc.get("expansionLoc", {}).get("file")
        if f and os.path.basename(f) != os.path.basename(self.path):
            return False
        return True

    def _set_parents(self, n, p):
        n["_p"] = p
        for c in n.get("inner", []) or []:
            if isinstance(c, dict):
                self._set_parents(c, n)

    @staticmethod
    def walk(n):
        stack = [n]
        while stack:
            x = stack.pop()
            yield x
            inner = x.get("inner")
            if inner:
                stack.extend(reversed([c for c in inner if isinstance(c, dict)]))

    def _off(self, locd):
        if not locd:
            return None
        if "offset" in locd:
            return locd["offset"]
        for k in ("expansionLoc", "spellingLoc"):
            if k in locd and "offset" in locd[k]:
                return locd[k]["offset"]
        return None

    def text_globals(self):
        """File-scope object declarations found by a brace-depth scan of the source text (comments, strings and preprocessor lines
        removed).  Needed where the AST was dumped through a name filter (the Python.h translation unit is too large to dump whole):
        a NEW file-scope object has a name no filter can anticipate.  -> [(name, declaration text, line)]"""
        import re
        src = self.src
        src = re.sub(r"/\*.*?\*/", lambda m: re.sub(r"[^\n]", " ", m.group(0)), src, flags=re.S)
        src = re.sub(r"//[^\n]*", lambda m: " " * len(m.group(0)), src)
        src = re.sub(r'"(?:\\.|[^"\\\n])*"', lambda m: '"' + " " * (len(m.group(0)) - 2) + '"', src)
        src = re.sub(r"(?m)^[ \t]*#[^\n]*(?:\\\n[^\n]*)*", lambda m: re.sub(r"[^\n]", " ", m.group(0)), src)
        out = []
        depth = 0
        start = 0
        i = 0
        n = len(src)
        chunk_has_block = False
        while i < n:
            ch = src[i]
            if ch == "{":
                if depth == 0:
                    chunk_has_block = True
                    head = src[start:i]
                depth += 1
            elif ch == "}":
                depth -= 1
                if depth == 0:
                    # end of a top-level block: function body, or initialiser (then a ';' follows)
                    j = i + 1
                    while j < n and src[j] in " \t\r\n":
                        j += 1
                    if j < n and src[j] == ";":
                        i = j
                        out.append(("var", head, start))
                    else:
                        out.append(("func" if head.rstrip().endswith(")") else "block", head, start))
                    start = i + 1
                    chunk_has_block = False
            elif ch == ";" and depth == 0:
                text = src[start:i]
                if text.strip():
                    out.append(("proto" if text.rstrip().endswith(")") else "var", text, start))
                start = i + 1
            i += 1
        res = []
        for kind, text, off in out:
            if kind != "var":
                continue
            t = " ".join(text.split())
            if not t or t.startswith(("typedef", "extern")) and "=" not in t:
                continue
            lhs = t.split("=")[0]
            m = re.findall(r"[A-Za-z_]\w*", re.sub(r"\[[^\]]*\]", "", lhs))
            if not m:
                continue
            line = 1 + self.src.count("\n", 0, off + len(text) - len(text.lstrip()))
            res.append((m[-1], t[:120], line))
        return res

    @staticmethod
    def pb(n):
        return n.get("_pb")

    @staticmethod
    def pe(n):
        return n.get("_pe")

    def line(self, n):
        off = self._off(n.get("range", {}).get("begin")) or self._off(n.get("loc"))
        if off is None:
            p = n.get("_p")
            return self.line(p) if p else 0
        return bisect.bisect_right(self._starts, off)

    def text(self, n):
        rng = n.get("range", {})
        b, e = rng.get("begin"), rng.get("end")
        bo, eo = self._off(b), self._off(e)
        if bo is None or eo is None:
            return n.get("kind", "?")
        tl = e.get("tokLen") or e.get("expansionLoc", {}).get("tokLen") or e.get("spellingLoc", {}).get("tokLen") or 1
        return " ".join(self.src[bo: eo + tl].split())

    def func(self, name):
        if name not in self.funcs:
            raise AnalysisError(f"C function {name} not found in {os.path.basename(self.path)} (anchor vanished)")
        return self.funcs[name]

    def body(self, fname):
        f = self.func(fname)
        for c in f["inner"]:
            if c.get("kind") == "CompoundStmt":
                return c
        raise AnalysisError(f"C function {fname} has no body")

    def params(self, fname):
        return [c["name"] for c in self.func(fname).get("inner", []) if c.get("kind") == "ParmVarDecl"]

    def enclosing_function(self, n):
        while n is not None and n.get("kind") != "FunctionDecl":
            n = n.get("_p")
        return n["name"] if n else None


# ---- expressions -> small symbolic trees -------------------------------------------------

_SKIP = ("ImplicitCastExpr", "ParenExpr", "CStyleCastExpr", "ConstantExpr")


def strip(n):
    while n.get("kind") in _SKIP:
        n = n["inner"][-1]
    return n


def ex(n):
    """Convert a clang expression node to a tuple tree."""
    n = strip(n)
    k = n.get("kind")
    if k == "IntegerLiteral":
        return ("int", int(n["value"]))
    if k == "FloatingLiteral":
        return ("float", float(n["value"]))
    if k == "DeclRefExpr":
        return ("var", n["referencedDecl"]["name"])
    if k == "BinaryOperator" or k == "CompoundAssignOperator":
        return ("bin", n["opcode"], ex(n["inner"][0]), ex(n["inner"][1]))
    if k == "UnaryOperator":
        return ("un", n["opcode"] + ("post" if n.get("isPostfix") and n["opcode"] in ("++", "--") else ""), ex(n["inner"][0]))
    if k == "ArraySubscriptExpr":
        b, i = ex(n["inner"][0]), ex(n["inner"][1])
        if b[0] == "bin" and b[1] == "+" and b[2][0] == "var":
            return ("idx", b[2], ("bin", "+", b[3], i))          # (arr + off)[i]  ==  arr[off + i]
        if b[0] == "bin" and b[1] == "+" and b[3][0] == "var" and b[2][0] != "var":
            return ("idx", b[3], ("bin", "+", b[2], i))
        return ("idx", b, i)
    if k == "CallExpr":
        return ("call", ex(n["inner"][0]), tuple(ex(a) for a in n["inner"][1:]))
    if k == "ConditionalOperator":
        return ("cond",) + tuple(ex(a) for a in n["inner"])
    if k == "UnaryExprOrTypeTraitExpr":
        return ("sizeof", n.get("argType", {}).get("qualType", "?"))
    if k == "MemberExpr":
        return ("member", ex(n["inner"][0]), n.get("name"))
    if k == "StringLiteral":
        return ("str", n.get("value"))
    return ("other", k)


def show(t):
    k = t[0]
    if k in ("int", "float"):
        return str(t[1])
    if k == "var":
        return t[1]
    if k == "bin":
        return f"({show(t[2])} {t[1]} {show(t[3])})"
    if k == "un":
        return f"{t[1]}{show(t[2])}"
    if k == "idx":
        return f"{show(t[1])}[{show(t[2])}]"
    if k == "call":
        return f"{show(t[1])}({', '.join(show(a) for a in t[2])})"
    return str(t)


# ---- integer polynomials over named symbols (exact; no solver) ---------------------------

class Poly:
    """Multivariate polynomial with integer coefficients: {monomial(tuple of sorted names): coeff}."""

    __slots__ = ("t",)

    def __init__(self, t=None):
        self.t = {k: v for k, v in (t or {}).items() if v != 0}

    @staticmethod
    def const(c):
        return Poly({(): c})

    @staticmethod
    def var(name):
        return Poly({(name,): 1})

    def __add__(self, o):
        r = dict(self.t)
        for k, v in o.t.items():
            r[k] = r.get(k, 0) + v
        return Poly(r)

    def __neg__(self):
        return Poly({k: -v for k, v in self.t.items()})

    def __sub__(self, o):
        return self + (-o)

    def __mul__(self, o):
        r = {}
        for k1, v1 in self.t.items():
            for k2, v2 in o.t.items():
                k = tuple(sorted(k1 + k2))
                r[k] = r.get(k, 0) + v1 * v2
        return Poly(r)

    def __eq__(self, o):
        return isinstance(o, Poly) and self.t == o.t

    def __hash__(self):
        return hash(tuple(sorted(self.t.items())))

    def subst(self, name, poly):
        out = Poly()
        for k, v in self.t.items():
            term = Poly.const(v)
            for s in k:
                term = term * (poly if s == name else Poly.var(s))
            out = out + term
        return out

    def is_const(self):
        return all(k == () for k in self.t)

    def const_value(self):
        return self.t.get((), 0)

    def vars(self):
        return {s for k in self.t for s in k}

    def __repr__(self):
        if not self.t:
            return "0"
        parts = []
        for k, v in sorted(self.t.items()):
            parts.append(f"{v}" + ("*" + "*".join(k) if k else ""))
        return " + ".join(parts)


def poly_of(t, env=None):
    """Tuple tree -> Poly (None if not polynomial). env: name -> Poly substitution."""
    env = env or {}
    k = t[0]
    if k == "int":
        return Poly.const(t[1])
    if k == "var":
        return env.get(t[1], Poly.var(t[1]))
    if k == "bin":
        a, b = poly_of(t[2], env), poly_of(t[3], env)
        if a is None or b is None:
            return None
        if t[1] == "+":
            return a + b
        if t[1] == "-":
            return a - b
        if t[1] == "*":
            return a * b
        return None
    if k == "un" and t[1] == "-":
        a = poly_of(t[2], env)
        return None if a is None else -a
    return None
