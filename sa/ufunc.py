"""Enumeration of xr.apply_ufunc call sites with resolved kernels and constant-propagated options."""
import ast

from .cfg import CFG, ReachingDefs, ENTRY
from .model import UNKNOWN, FuncInfo, call_name, kwarg, unparse
from .report import AnalysisError


class UfuncSite:
    def __init__(self, repo, fi, call):
        self.repo, self.fi, self.call = repo, fi, call
        self.module = fi.module
        if not call.args:
            raise AnalysisError(f"apply_ufunc without positional kernel in {fi.qualname}")
        self.kernel_expr = call.args[0]
        # arguments / core dimensions given as columns of a local table of (argument, core dims) pairs are expanded
        from .astutil import expand_table_comprehension
        args = []
        for a in call.args[1:]:
            col = expand_table_comprehension(fi.node, a.value) if isinstance(a, ast.Starred) else None
            args += col if col is not None else [a]
        self.args = args
        self.line = call.lineno
        env = None
        c = lambda e: repo.const(self.module, e, env) if e is not None else UNKNOWN
        icd = kwarg(call, "input_core_dims")
        col = expand_table_comprehension(fi.node, icd) if icd is not None else None
        if col is not None:
            icd = ast.copy_location(ast.List(elts=col, ctx=ast.Load()), icd)
        self.input_core_dims = c(icd)
        self.output_core_dims = c(kwarg(call, "output_core_dims"))
        self.vectorize = c(kwarg(call, "vectorize")) if kwarg(call, "vectorize") is not None else False
        self.dask = c(kwarg(call, "dask")) if kwarg(call, "dask") is not None else "forbidden"
        self.gufunc_expr = kwarg(call, "dask_gufunc_kwargs")
        self.exclude_dims = kwarg(call, "exclude_dims")
        self._cfg = None
        self._rd = None

    @property
    def where(self):
        return f"{self.fi.file}:{self.line} {self.fi.short}"

    @property
    def cfg(self):
        if self._cfg is None:
            self._cfg = CFG(self.fi.node)
            self._rd = ReachingDefs(self._cfg)
        return self._cfg

    @property
    def rd(self):
        self.cfg
        return self._rd

    def gufunc_item(self, key):
        """AST of dask_gufunc_kwargs[key] or None."""
        g = self.gufunc_expr
        if g is None:
            return None
        if isinstance(g, ast.Name):
            # local dict literal
            node = self.cfg.node(self.call)
            defs = self.rd.at(node, g.id)
            vals = []
            for d in defs:
                st = self.cfg.stmt.get(d)
                if isinstance(st, ast.Assign):
                    vals.append(st.value)
            if len(vals) == 1:
                g = vals[0]
        if isinstance(g, ast.Dict):
            for k, v in zip(g.keys, g.values):
                if k is not None and self.repo.const(self.module, k) == key:
                    return v
            return None
        if isinstance(g, ast.Call) and call_name(g) == "dict":
            return kwarg(g, key)
        return None

    @property
    def allow_rechunk(self):
        v = self.gufunc_item("allow_rechunk")
        return v is not None and self.repo.const(self.module, v) is True

    def kernels(self):
        """FuncInfo list the kernel expression may denote (branches assigning a local are followed)."""
        return resolve_callable(self.repo, self.fi, self.kernel_expr, self.cfg, self.rd, self.call)


def resolve_callable(repo, fi, expr, cfg, rd, at_node_stmt):
    if isinstance(expr, ast.IfExp):
        # kernel = a if cond else b : both alternatives
        return resolve_callable(repo, fi, expr.body, cfg, rd, at_node_stmt) + resolve_callable(repo, fi, expr.orelse, cfg, rd, at_node_stmt)
    if isinstance(expr, ast.Subscript):
        # kernel = TABLE[key] with TABLE a dict / tuple / list literal (local or module level): every entry is an alternative
        tab = expr.value
        lit = None
        if isinstance(tab, (ast.Dict, ast.Tuple, ast.List)):
            lit = tab
        elif isinstance(tab, ast.Name):
            node = cfg.node(at_node_stmt)
            defs = rd.at(node, tab.id) - {ENTRY}
            if len(defs) == 1:
                st = cfg.stmt[next(iter(defs))]
                if isinstance(st, ast.Assign) and isinstance(st.value, (ast.Dict, ast.Tuple, ast.List)):
                    lit = st.value
            elif not defs:
                mod_assign = [a for a in fi.module.tree.body if isinstance(a, ast.Assign) and any(isinstance(t, ast.Name) and t.id == tab.id for t in a.targets)]
                if len(mod_assign) == 1 and isinstance(mod_assign[0].value, (ast.Dict, ast.Tuple, ast.List)):
                    lit = mod_assign[0].value
        if lit is not None:
            vals = lit.values if isinstance(lit, ast.Dict) else lit.elts
            out = []
            for v in vals:
                out += resolve_callable(repo, fi, v, cfg, rd, at_node_stmt)
            if out:
                return out
    sym = repo.resolve_expr(fi.module, expr)
    if isinstance(sym, FuncInfo):
        if isinstance(expr, ast.Name):
            # a local rebinding shadows the module-level name
            node = cfg.node(at_node_stmt)
            defs = rd.at(node, expr.id)
            if defs - {ENTRY}:
                sym = None
        if sym is not None:
            return [sym]
    if isinstance(expr, ast.Name):
        node = cfg.node(at_node_stmt)
        out = []
        for d in rd.at(node, expr.id):
            if d == ENTRY:
                raise AnalysisError(f"kernel '{expr.id}' of apply_ufunc in {fi.qualname} is a parameter/free variable")
            st = cfg.stmt[d]
            if isinstance(st, ast.Assign) and len(st.targets) == 1:
                out += resolve_callable(repo, fi, st.value, cfg, rd, st)
            elif isinstance(st, (ast.For, ast.AsyncFor)) and isinstance(st.target, (ast.Tuple, ast.List)) \
                    and any(isinstance(e, ast.Name) and e.id == expr.id for e in st.target.elts):
                # `for key, kernel in TABLE: if sel == key: break` with TABLE a literal sequence of rows: the kernel column holds the alternatives
                col = [i for i, e in enumerate(st.target.elts) if isinstance(e, ast.Name) and e.id == expr.id][0]
                it = st.iter
                if isinstance(it, ast.Name):
                    idefs = rd.at(cfg.node(st), it.id) - {ENTRY}
                    if len(idefs) == 1 and isinstance(cfg.stmt[next(iter(idefs))], ast.Assign):
                        it = cfg.stmt[next(iter(idefs))].value
                    elif not idefs and it.id in fi.module.consts:
                        it = fi.module.consts[it.id]
                if isinstance(it, ast.Call) and isinstance(it.func, ast.Attribute) and it.func.attr == "items" and isinstance(it.func.value, ast.Dict) \
                        and len(st.target.elts) == 2:
                    rows = [ast.Tuple(elts=[k_, v_], ctx=ast.Load()) for k_, v_ in zip(it.func.value.keys, it.func.value.values)]
                elif isinstance(it, (ast.Tuple, ast.List)):
                    rows = it.elts
                else:
                    raise AnalysisError(f"kernel '{expr.id}' in {fi.qualname} bound by a loop over a table that is not a literal")
                for r_ in rows:
                    if not (isinstance(r_, (ast.Tuple, ast.List)) and len(r_.elts) == len(st.target.elts)):
                        raise AnalysisError(f"kernel '{expr.id}' in {fi.qualname} bound by a loop over a table that is not a literal")
                    out += resolve_callable(repo, fi, r_.elts[col], cfg, rd, st)
            else:
                raise AnalysisError(f"kernel '{expr.id}' in {fi.qualname} bound by unsupported statement")
        return out
    raise AnalysisError(f"cannot resolve apply_ufunc kernel '{unparse(expr)}' in {fi.qualname}")


def sites(repo):
    out = []
    for fi in repo.all_funcs():
        for n in ast.walk(fi.node):
            if isinstance(n, ast.Call) and call_name(n) in ("xr.apply_ufunc", "xarray.apply_ufunc", "apply_ufunc"):
                # skip nested function defs belonging to other FuncInfo
                out.append(UfuncSite(repo, fi, n))
    out.sort(key=lambda s: (s.fi.file, s.line))
    return out
