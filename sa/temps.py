"""E0 normalisation: NEW single-assignment locals that merely name a sub-expression are folded back into their uses.

`target_dmin = dir.min(); source_dmin = dsout.dir.min(); if target_dmin < source_dmin:`  is read as  `if dir.min() < dsout.dir.min():`.
"Introduce a named temporary" is one of the commonest behaviour-preserving edits; rules reason about expression shapes, and a rule that
follows names only where it was written to do so would otherwise lose the shape (exit 2) or, worse, see half of it (false alarm).

Only locals that did not exist when the rules were written are touched (sa/pin_tables.json): the pinned locals are the anchors of the rules.
Soundness guards - the folded program must be the same program:
  * the local is stored exactly once in the function, by a plain `t = expr` statement, never deleted, not global / nonlocal;
  * expr calls no known mutator and contains no yield / await / walrus;
  * every name read by expr is stored only BEFORE the definition (or never: parameters, globals), loop variables of loops that enclose
    the definition excepted - and then every use must lie inside the same innermost loop as the definition;
  * every use comes after the definition in the same function scope (uses inside a nested def / lambda / comprehension are left alone
    and block the folding, because they would be evaluated at another time).
"""
import ast

from .inline import PIN, _clone

_MUTATORS = {"append", "extend", "pop", "popitem", "update", "sort", "remove", "insert", "setdefault", "clear", "write", "writelines", "read",
             "readline", "readlines", "next", "send", "close", "seek", "add", "discard", "reverse", "fill", "put", "resize", "load", "persist",
             "compute", "open", "warn", "seed", "shuffle"}


def _stores(fn):
    out = {}
    for n in ast.walk(fn):
        if isinstance(n, ast.Name) and isinstance(n.ctx, (ast.Store, ast.Del)):
            out.setdefault(n.id, []).append(n)
        elif isinstance(n, ast.arg):
            out.setdefault(n.arg, [])
    return out


def _enclosing_loops(node, fn):
    out = []
    p = getattr(node, "_parent", None)
    while p is not None and p is not fn:
        if isinstance(p, (ast.For, ast.While, ast.AsyncFor)):
            out.append(p)
        p = getattr(p, "_parent", None)
    return out


def _in_nested_scope(node, fn):
    p = getattr(node, "_parent", None)
    while p is not None and p is not fn:
        if isinstance(p, (ast.FunctionDef, ast.AsyncFunctionDef, ast.Lambda, ast.ListComp, ast.SetComp, ast.DictComp, ast.GeneratorExp, ast.ClassDef)):
            return True
        p = getattr(p, "_parent", None)
    return False


def _split_parallel(fn, pinned):
    """`a, b = X, Y` with NEW plain names on the left is stored as `a = X; b = Y` (exact when no right-hand side reads a target:
    binding a name has no side effect, so only the order of evaluation of Y against the binding of a could matter)."""
    n_ = 0
    for par in ast.walk(fn):
        for fld in ("body", "orelse", "finalbody"):
            b = getattr(par, fld, None)
            if not isinstance(b, list):
                continue
            i = 0
            while i < len(b):
                st = b[i]
                if isinstance(st, ast.Assign) and len(st.targets) == 1 and isinstance(st.targets[0], (ast.Tuple, ast.List)) \
                        and isinstance(st.value, (ast.Tuple, ast.List)) and len(st.value.elts) == len(st.targets[0].elts) \
                        and all(isinstance(e, ast.Name) and e.id not in pinned for e in st.targets[0].elts) \
                        and not any(isinstance(e, ast.Starred) for e in st.value.elts):
                    tn = {e.id for e in st.targets[0].elts}
                    if len(tn) == len(st.targets[0].elts) and not any(isinstance(x, ast.Name) and x.id in tn for v in st.value.elts for x in ast.walk(v)):
                        new = []
                        for k, (t, v) in enumerate(zip(st.targets[0].elts, st.value.elts)):
                            a = ast.Assign(targets=[t], value=v, type_comment=None)
                            ast.copy_location(a, v)
                            a.end_lineno, a.end_col_offset = getattr(v, "end_lineno", v.lineno), getattr(v, "end_col_offset", v.col_offset + 1)
                            new.append(a)
                        b[i:i + 1] = new
                        n_ += 1
                        i += len(new)
                        continue
                i += 1
    return n_


def _forward_list_pack(fn):
    """`L = []; ..; L.append(A); ..; L.append(B); ..; x, y = L` in one block, L mentioned nowhere else, is `L__0 = A; L__1 = B; x, y = L__0, L__1`
    (a list that only carries k values from where they are made to where they are unpacked)."""
    n_ = 0
    for par in list(ast.walk(fn)):
        for fld in ("body", "orelse", "finalbody"):
            b = getattr(par, fld, None)
            if not isinstance(b, list):
                continue
            for i, st in enumerate(list(b)):
                if not (isinstance(st, ast.Assign) and len(st.targets) == 1 and isinstance(st.targets[0], ast.Name) and isinstance(st.value, ast.List) and not st.value.elts):
                    continue
                L = st.targets[0].id
                occ = [x for x in ast.walk(fn) if isinstance(x, ast.Name) and x.id == L and x is not st.targets[0]]
                apps, fin = [], None
                ok = True
                for x in occ:
                    p1 = getattr(x, "_parent", None)
                    p2 = getattr(p1, "_parent", None)
                    p3 = getattr(p2, "_parent", None)
                    if isinstance(p1, ast.Attribute) and p1.attr == "append" and isinstance(p2, ast.Call) and p2.func is p1 and len(p2.args) == 1 and not p2.keywords \
                            and isinstance(p3, ast.Expr) and p3 in b:
                        apps.append(p3)
                    elif isinstance(p1, ast.Assign) and p1.value is x and len(p1.targets) == 1 and isinstance(p1.targets[0], (ast.Tuple, ast.List)) \
                            and all(isinstance(e, ast.Name) for e in p1.targets[0].elts) and p1 in b and fin is None:
                        fin = p1
                    else:
                        ok = False
                if not ok or fin is None or not apps or len(apps) != len(fin.targets[0].elts):
                    continue
                idx = [b.index(a) for a in apps]
                if idx != sorted(idx) or b.index(fin) < max(idx) or min(idx) < i:
                    continue
                names = [f"{L}__{k}" for k in range(len(apps))]
                for k, a in enumerate(apps):
                    new = ast.Assign(targets=[ast.copy_location(ast.Name(id=names[k], ctx=ast.Store()), a)], value=a.value.args[0], type_comment=None)
                    ast.copy_location(new, a)
                    new.end_lineno, new.end_col_offset = getattr(a, "end_lineno", a.lineno), getattr(a, "end_col_offset", a.col_offset + 1)
                    b[b.index(a)] = new
                fin.value = ast.copy_location(ast.Tuple(elts=[ast.copy_location(ast.Name(id=nm, ctx=ast.Load()), fin.value) for nm in names], ctx=ast.Load()), fin.value)
                b.remove(st)
                n_ += 1
                for n in ast.walk(fn):
                    for c in ast.iter_child_nodes(n):
                        c._parent = n
    return n_


def _coalesce_copies(fn):
    """`x = t` where t is a name made by a normal form (`..__uK`), never read after this copy, and x is not mentioned between t's first store and the
    copy: t IS x - the copy is dropped and t renamed (the unrolled `pad__u0 = ..; pad__u0 = f(pad__u0); left = pad__u0` is `left = ..; left = f(left)`)."""
    import re
    n_ = 0
    for _ in range(20):
        done = False
        for par in list(ast.walk(fn)):
            for fld in ("body", "orelse", "finalbody"):
                b = getattr(par, fld, None)
                if not isinstance(b, list):
                    continue
                for st in list(b):
                    if not (isinstance(st, ast.Assign) and len(st.targets) == 1 and isinstance(st.targets[0], ast.Name) and isinstance(st.value, ast.Name)):
                        continue
                    x, t = st.targets[0].id, st.value.id
                    if not re.search(r"__u\d+$", t) or x == t:
                        continue
                    tocc = [n for n in ast.walk(fn) if isinstance(n, ast.Name) and n.id == t and n is not st.value]
                    if not tocc or any((n.lineno, n.col_offset) > (st.lineno, st.col_offset) for n in tocc):
                        continue
                    first = min((n.lineno, n.col_offset) for n in tocc)
                    if not all(any(n is y for s_ in b for y in ast.walk(s_)) for n in tocc):
                        continue          # all in this block
                    xocc = [n for n in ast.walk(fn) if isinstance(n, ast.Name) and n.id == x and n is not st.targets[0]]
                    if any(first <= (n.lineno, n.col_offset) <= (st.lineno, st.col_offset) for n in xocc):
                        continue
                    for n in tocc:
                        n.id = x
                    b.remove(st)
                    n_ += 1
                    done = True
                    break
                if done:
                    break
            if done:
                break
        if not done:
            break
    return n_


def _unroll_literal_loops(fn, pinned):
    """`for a, b in ((x1, y1), (x2, y2)): BODY` with NEW loop variables over a literal display of at most 6 rows is stored unrolled:
    `a__u0, b__u0 = x1, y1; BODY[a__u0, b__u0]; a__u1, b__u1 = x2, y2; BODY[..]` - "two parallel blocks merged into one loop over a table"
    is read as the two blocks again (exact: the rows of a display are evaluated in order either way; no break / continue in BODY)."""
    n_ = 0
    for par in list(ast.walk(fn)):
        for fld in ("body", "orelse", "finalbody"):
            b = getattr(par, fld, None)
            if not isinstance(b, list):
                continue
            i = 0
            while i < len(b):
                lp = b[i]
                i += 1
                if not isinstance(lp, ast.For) or lp.orelse or not isinstance(lp.iter, (ast.Tuple, ast.List)) or not (1 <= len(lp.iter.elts) <= 6):
                    continue
                tnames = [x.id for x in ast.walk(lp.target) if isinstance(x, ast.Name)]
                if not tnames or any(t in pinned for t in tnames) or any(isinstance(e, ast.Starred) for e in lp.iter.elts):
                    continue
                def has_jump(stmts):
                    for s_ in stmts:
                        if isinstance(s_, (ast.Break, ast.Continue)):
                            return True
                        if isinstance(s_, (ast.For, ast.While, ast.AsyncFor, ast.FunctionDef, ast.AsyncFunctionDef, ast.ClassDef)):
                            continue
                        for f2 in ("body", "orelse", "finalbody", "handlers"):
                            sub = getattr(s_, f2, None)
                            if isinstance(sub, list) and has_jump([x for x in sub if isinstance(x, ast.stmt)] +
                                                                   [y for x in sub if isinstance(x, ast.ExceptHandler) for y in x.body]):
                                return True
                    return False
                if has_jump(lp.body):
                    continue
                # the loop variables must not be read after the loop (they would keep the last row's values: keep it simple)
                after = [x for x in ast.walk(fn) if isinstance(x, ast.Name) and x.id in tnames and isinstance(x.ctx, ast.Load)
                         and (x.lineno, x.col_offset) > (getattr(lp, "end_lineno", lp.lineno), getattr(lp, "end_col_offset", 0))]
                if after:
                    continue
                # locals that live only inside the loop body (every occurrence in the function is inside the loop, first occurrence in the body a
                # store) are per-iteration temporaries: they get their own name in each copy as well
                lo_, hi_ = (lp.lineno, lp.col_offset), (getattr(lp, "end_lineno", lp.lineno), getattr(lp, "end_col_offset", 10 ** 6))
                inner_ids = {id(x) for st_ in lp.body for x in ast.walk(st_)}
                locals_ = []
                for nm_ in sorted({x.id for st_ in lp.body for x in ast.walk(st_) if isinstance(x, ast.Name) and isinstance(x.ctx, ast.Store)} - set(tnames)):
                    occ = [x for x in ast.walk(fn) if isinstance(x, ast.Name) and x.id == nm_]
                    if all(id(x) in inner_ids for x in occ) and not any(isinstance(a_, ast.arg) and a_.arg == nm_ for a_ in ast.walk(fn)):
                        first = min((x for x in occ), key=lambda x: (x.lineno, x.col_offset))
                        stmt_ = first
                        while stmt_ is not None and not isinstance(stmt_, ast.stmt):
                            stmt_ = getattr(stmt_, "_parent", None)
                        # defined before it is read in every iteration: the first statement mentioning it assigns it and does not read it
                        if isinstance(stmt_, ast.Assign) and any(isinstance(t_, ast.Name) and t_.id == nm_ for t_ in stmt_.targets) \
                                and not any(isinstance(x, ast.Name) and x.id == nm_ for x in ast.walk(stmt_.value)) and stmt_ in lp.body:
                            locals_.append(nm_)
                out = []
                for k, row in enumerate(lp.iter.elts):
                    ren = {t: f"{t}__u{k}" for t in tnames + locals_}

                    class R(ast.NodeTransformer):
                        def visit_Name(self, n):
                            if n.id in ren:
                                return ast.copy_location(ast.Name(id=ren[n.id], ctx=n.ctx), n)
                            return n
                    tg = R().visit(_clone(lp.target))
                    a = ast.Assign(targets=[tg], value=_clone(row), type_comment=None)
                    ast.copy_location(a, row)
                    a.end_lineno, a.end_col_offset = getattr(row, "end_lineno", row.lineno), getattr(row, "end_col_offset", row.col_offset + 1)
                    out.append(a)
                    for st in lp.body:
                        out.append(R().visit(_clone(st)))
                b[i - 1:i] = out
                i += len(out) - 1
                n_ += 1
    return n_


def _unpack_indexed(fn, pinned):
    """`t = f(..)` whose only uses are `t[0]`, `t[1]`, .. (constant indices, loads) with t a NEW local is stored as the unpacking
    `(t__0, t__1, ..) = f(..)` with the subscripts replaced by those names: indexing a result tuple and unpacking it are one program
    for the analyses (the arity of the result is not something they decide)."""
    n_ = 0
    for n in ast.walk(fn):
        for c in ast.iter_child_nodes(n):
            c._parent = n
    stores = _stores(fn)
    for st in [s for s in ast.walk(fn) if isinstance(s, ast.Assign)]:
        if len(st.targets) != 1 or not isinstance(st.targets[0], ast.Name) or not isinstance(st.value, ast.Call):
            continue
        t = st.targets[0].id
        if t in pinned or len(stores.get(t, [])) != 1 or _in_nested_scope(st, fn):
            continue
        uses = [x for x in ast.walk(fn) if isinstance(x, ast.Name) and x.id == t and isinstance(x.ctx, ast.Load)]
        if len(uses) < 2:
            continue
        idx = []
        for u in uses:
            p = getattr(u, "_parent", None)
            if isinstance(p, ast.Subscript) and p.value is u and isinstance(p.ctx, ast.Load) and isinstance(p.slice, ast.Constant) \
                    and isinstance(p.slice.value, int) and not isinstance(p.slice.value, bool) and 0 <= p.slice.value < 8 \
                    and not _in_nested_scope(u, fn) and (u.lineno, u.col_offset) > (st.lineno, st.col_offset):
                idx.append((p, p.slice.value))
            else:
                idx = None
                break
        if not idx or len({k for _, k in idx}) < 2:
            continue
        width = max(k for _, k in idx) + 1
        names = [f"{t}__{k}" for k in range(width)]
        if any(nm in stores for nm in names):
            continue
        fn._normalised_away = getattr(fn, "_normalised_away", set()) | {t}
        tup = ast.Tuple(elts=[ast.copy_location(ast.Name(id=nm, ctx=ast.Store()), st.targets[0]) for nm in names], ctx=ast.Store())
        st.targets = [ast.copy_location(tup, st.targets[0])]
        for sub, k in idx:
            new = ast.copy_location(ast.Name(id=names[k], ctx=ast.Load()), sub)
            up = sub._parent
            for f_ in up._fields:
                v = getattr(up, f_, None)
                if v is sub:
                    setattr(up, f_, new)
                elif isinstance(v, list):
                    for i_, e_ in enumerate(v):
                        if e_ is sub:
                            v[i_] = new
        n_ += 1
    return n_


def fold_function(fi):
    fn = fi.node
    pinned = set(PIN["locals"].get(fi.qualname, ()))
    if fi.qualname not in PIN["locals"]:
        return 0
    # the shape normal forms are applied to every local, pinned or not: a normal form must not depend on what a variable is called
    for n in ast.walk(fn):
        for c in ast.iter_child_nodes(n):
            c._parent = n
    pre = _unroll_literal_loops(fn, set())
    for n in ast.walk(fn):
        for c in ast.iter_child_nodes(n):
            c._parent = n
    pre += _forward_list_pack(fn)
    pre += _split_parallel(fn, set()) + _unpack_indexed(fn, set())
    # renamed locals look like new ones: when the function has lost as many pinned locals as it has gained new ones, the new names are
    # (most likely) the old locals under another name - the rules already follow renamed locals by shape, so nothing is folded there
    present = {n.id for n in ast.walk(fn) if isinstance(n, ast.Name) and isinstance(n.ctx, ast.Store)}
    a_ = fn.args
    params = {x.arg for x in a_.posonlyargs + a_.args + a_.kwonlyargs}
    missing = {p for p in pinned if p not in present and p not in params and p not in getattr(fn, "_normalised_away", ())}
    import re as _re
    # names made by the normal forms (x__u0, x__u1, t__0 ..) stand for the author's one name x / t
    gained = {_re.sub(r"__u?\d+$", "", p) for p in present if p not in pinned} - pinned
    # a renamed local that a normal form took apart (data_v -> data_v__0 ..) still counts as the renamed one
    gained |= {p for p in getattr(fn, "_normalised_away", ()) if p not in pinned}
    missing -= {p for p in missing if p in getattr(fn, "_normalised_away", ())}
    if missing and len(gained) <= len(missing):
        return pre
    total = pre
    for _ in range(80):
        for n in ast.walk(fn):
            for c in ast.iter_child_nodes(n):
                c._parent = n
        stores = _stores(fn)
        if any(isinstance(n, (ast.Global, ast.Nonlocal)) for n in ast.walk(fn)):
            return total
        done = 0
        for st in [s for s in ast.walk(fn) if isinstance(s, ast.Assign)]:
            if len(st.targets) != 1 or not isinstance(st.targets[0], ast.Name):
                continue
            t = st.targets[0].id
            if t in pinned or t.startswith("__") or len(stores.get(t, [])) != 1:
                continue
            if _in_nested_scope(st, fn):
                continue
            # a local that is itself written through (t[..] = .., t.attr = .., t.append(..)) is an object being built, not a name for an expression
            mutated = False
            for a in ast.walk(fn):
                tg = a.targets if isinstance(a, ast.Assign) else [a.target] if isinstance(a, (ast.AugAssign, ast.AnnAssign)) else \
                    a.targets if isinstance(a, ast.Delete) else []
                for g in tg:
                    r = g
                    while isinstance(r, (ast.Subscript, ast.Attribute)):
                        r = r.value
                    if r is not g and isinstance(r, ast.Name) and r.id == t:
                        mutated = True
                if isinstance(a, ast.Call) and isinstance(a.func, ast.Attribute) and a.func.attr in _MUTATORS:
                    r = a.func.value
                    while isinstance(r, (ast.Subscript, ast.Attribute)):
                        r = r.value
                    if isinstance(r, ast.Name) and r.id == t:
                        mutated = True
            if mutated:
                continue
            expr = st.value
            if any(isinstance(x, (ast.Yield, ast.YieldFrom, ast.Await, ast.NamedExpr)) for x in ast.walk(expr)):
                continue
            if any(isinstance(x, ast.Call) and isinstance(x.func, ast.Attribute) and x.func.attr in _MUTATORS for x in ast.walk(expr)):
                continue
            if any(isinstance(x, ast.Call) and isinstance(x.func, ast.Name) and x.func.id in ("next", "open", "input", "print") for x in ast.walk(expr)):
                continue
            if isinstance(expr, (ast.List, ast.Dict, ast.Set)) and not (expr.elts if not isinstance(expr, ast.Dict) else expr.keys):
                continue        # t = []: a container that is filled later, not a name for an expression
            # the statement must sit directly in a block
            par = getattr(st, "_parent", None)
            blk = None
            for fld in ("body", "orelse", "finalbody"):
                b = getattr(par, fld, None)
                if isinstance(b, list) and st in b:
                    blk = b
            if blk is None:
                continue
            dloops = _enclosing_loops(st, fn)
            loopvars = set()
            for lp in dloops:
                if isinstance(lp, (ast.For, ast.AsyncFor)):
                    loopvars |= {x.id for x in ast.walk(lp.target) if isinstance(x, ast.Name)}
            uses = [x for x in ast.walk(fn) if isinstance(x, ast.Name) and x.id == t and isinstance(x.ctx, ast.Load)]
            if not uses:
                continue

            def wpos(w):
                # a name is (re)bound when its statement completes (targets of an assignment are stored after the value was evaluated)
                p_ = getattr(w, "_parent", None)
                while p_ is not None and not isinstance(p_, ast.stmt):
                    p_ = getattr(p_, "_parent", None)
                if isinstance(p_, (ast.Assign, ast.AugAssign, ast.AnnAssign)):
                    return (getattr(p_, "end_lineno", p_.lineno), getattr(p_, "end_col_offset", 10 ** 6))
                return (w.lineno, w.col_offset)
            dpos = (getattr(st, "end_lineno", st.lineno), getattr(st, "end_col_offset", 10 ** 6))
            last_use = max((u.lineno, u.col_offset) for u in uses)
            ok = True
            for x in ast.walk(expr):
                if isinstance(x, ast.Name) and isinstance(x.ctx, ast.Load):
                    if x.id == t:
                        ok = False
                    for w in stores.get(x.id, []):
                        if x.id in loopvars:
                            continue
                        # an operand re-bound between the definition and the last use would make the folded expression see another value
                        if dpos <= wpos(w) <= last_use:
                            ok = False
            if not ok:
                continue
            bad = False
            if len(uses) > 1 and any(isinstance(x, (ast.Call, ast.List, ast.Dict, ast.Set, ast.ListComp, ast.DictComp, ast.SetComp)) for x in ast.walk(expr)):
                continue        # one object referred to twice would become two objects: sharing is part of the semantics
            for u in uses:
                if (u.lineno, u.col_offset) <= (st.lineno, st.col_offset) or _in_nested_scope(u, fn):
                    bad = True
                ul = _enclosing_loops(u, fn)
                if dloops and (not ul or dloops[0] not in ul):
                    bad = True
                if ul and (not dloops or any(l_ not in dloops for l_ in ul)) and any(isinstance(x, (ast.Call, ast.List, ast.Dict, ast.Set, ast.ListComp, ast.DictComp, ast.SetComp))
                                                                                          for x in ast.walk(expr)):
                    # the definition is evaluated ONCE outside a loop the use runs in: folding a call / a container display into the loop would
                    # create one object per iteration instead of one shared object (exactly the difference a per-record buffer rule looks for)
                    bad = True
                if not dloops and ul:
                    # use inside a loop, definition outside: operands must not be written in that loop
                    for x in ast.walk(expr):
                        if isinstance(x, ast.Name) and any(any(w is y for y in ast.walk(lp)) for w in stores.get(x.id, []) for lp in ul):
                            bad = True
            if bad:
                continue
            # an attribute / item store through an operand between definition and use (x.attrs[..] = ..) is not tracked: refuse operands
            # that are subscripted / attribute-assigned anywhere after the definition
            roots = {x.id for x in ast.walk(expr) if isinstance(x, ast.Name)}
            for a in ast.walk(fn):
                tg = a.targets if isinstance(a, ast.Assign) else [a.target] if isinstance(a, (ast.AugAssign, ast.AnnAssign)) else []
                for g in tg:
                    if isinstance(g, (ast.Subscript, ast.Attribute)):
                        r = g
                        while isinstance(r, (ast.Subscript, ast.Attribute)):
                            r = r.value
                        apos = (getattr(a, "end_lineno", a.lineno), getattr(a, "end_col_offset", 10 ** 6))     # the store happens when the statement completes
                        if isinstance(r, ast.Name) and r.id in roots and apos > dpos and any((u.lineno, u.col_offset) > apos for u in uses):
                            bad = True
            if bad:
                continue
            for u in uses:
                up = u._parent
                new = _clone(expr)
                for y in ast.walk(new):
                    if hasattr(y, "lineno"):
                        y.lineno, y.col_offset = u.lineno, u.col_offset
                        y.end_lineno, y.end_col_offset = getattr(u, "end_lineno", u.lineno), getattr(u, "end_col_offset", u.col_offset)
                for f_ in up._fields:
                    v = getattr(up, f_, None)
                    if v is u:
                        setattr(up, f_, new)
                    elif isinstance(v, list):
                        for i_, e_ in enumerate(v):
                            if e_ is u:
                                v[i_] = new
            blk.remove(st)
            if not blk:
                blk.append(ast.copy_location(ast.Pass(), st))
            done += 1
            break          # positions / parents changed: rescan
        total += done
        if not done:
            break
    return total + _coalesce_copies(fn)


def fold_new_temporaries(repo):
    n = 0
    for m in repo.modules.values():
        for fi in list(m.funcs.values()) + [x for c in m.classes.values() for x in c.methods.values()]:
            n += fold_function(fi)
        for a in ast.walk(m.tree):
            for c in ast.iter_child_nodes(a):
                c._parent = a
    return n
