"""E3 (part) - order provenance of the direction axis: do labels follow data through reordering?

Every xarray-valued name carries an *order tag* for the `dir` dimension: ('in', root) = stored order of a
caller-owned object, 'sorted' = ascending by label (after sortby(dir)), None = unknown (never alarmed).
Events:
  POS   positional indexing / rolling along dir on a value whose order is the caller's (not sorted here)
  SLICE label slice sel(dir=slice(a, b)) on a value not sorted ascending
  LABEL labels taken from an object with a different order tag are assigned onto this data
"""
import ast

from .model import UNKNOWN, call_name, kwarg, unparse

SORTED = "sorted"
KEEP = {"astype", "chunk", "where", "fillna", "rolling", "mean", "transpose", "copy", "load", "compute", "rename",
        "drop_vars", "expand_dims", "squeeze", "persist", "to_dataset", "reset_coords", "round", "clip", "notnull",
        "isnull", "drop_dims", "pipe", "assign_attrs", "construct", "unify_chunks"}


class OrderAnalysis:
    def __init__(self, repo, fi, dim):
        self.repo, self.fi, self.dim = repo, fi, dim
        self.mod = fi.module
        self.env = {}
        self.derived = {}        # plain (numpy) names derived elementwise from X's dir coordinate -> tag
        self.events = []
        self.checked = 0
        a = fi.node.args
        for p in a.posonlyargs + a.args + a.kwonlyargs:
            self.env[p.arg] = ("in", p.arg)
        # a tag is a single atom or a frozenset of possible atoms (after control-flow joins)
        self.is_acc = fi.cls is not None and fi.cls.name in ("SpecArray", "SpecDataset", "Partition")
        self.is_plugin = fi.cls is None and fi.name.startswith("to_") and fi.module.name.startswith("wavespectra.output.")

    def run(self):
        self.block(self.fi.node.body)
        return self.events

    # ---- helpers ------------------------------------------------------------------------------
    def is_dim(self, e):
        if e is None:
            return False
        v = self.repo.const(self.mod, e)
        if v == self.dim:
            return True
        if isinstance(v, (list, tuple)) and self.dim in v:
            return True
        return False

    def event(self, kind, node, msg):
        self.events.append((kind, node, msg))

    def coord_of(self, e):
        """If e is X[dim] / X.dim / X.coords[dim] (optionally .values / elementwise arithmetic) return tag of X."""
        e0 = e
        while True:
            if isinstance(e, ast.Attribute) and e.attr in ("values", "data"):
                e = e.value
            elif isinstance(e, ast.BinOp):
                # elementwise map of one coordinate (other operand scalar)
                l, r = self.coord_of(e.left), self.coord_of(e.right)
                return l if l is not None else r
            elif isinstance(e, ast.Call) and isinstance(e.func, ast.Attribute) and e.func.attr in ("astype", "round", "copy"):
                e = e.func.value
            elif isinstance(e, ast.Call) and call_name(e) in ("np.deg2rad", "np.rad2deg", "np.radians", "np.degrees", "np.mod", "np.array", "np.asarray", "np.abs"):
                if not e.args:
                    return None
                e = e.args[0]
            else:
                break
        if isinstance(e, ast.Subscript) and self.is_dim(e.slice):
            return self.tag(e.value) or ("unk",)
        if isinstance(e, ast.Attribute) and e.attr == self.dim:
            return self.tag(e.value) or ("unk",)
        if isinstance(e, ast.Name) and e.id in self.derived:
            return self.derived[e.id]
        return None

    # ---- tags of expressions ---------------------------------------------------------------------
    def tag(self, e):
        if isinstance(e, ast.Name):
            return self.env.get(e.id)
        if isinstance(e, ast.Attribute):
            if isinstance(e.value, ast.Name) and e.value.id == "self" and (self.is_acc and e.attr in ("_obj", "dset")):
                return ("in", "self")
            if isinstance(e.value, ast.Name) and e.value.id == "self" and self.is_plugin:
                return ("in", "self")
            if e.attr in ("spec", "efth", "T"):
                return self.tag(e.value)
            return None
        if isinstance(e, ast.Subscript):
            # ds[name] keeps the dataset's order; positional handled in visit
            return self.tag(e.value)
        if isinstance(e, ast.BinOp):
            return self.tag(e.left) or self.tag(e.right)
        if isinstance(e, ast.Call):
            return self.call_tag(e)
        return None

    def call_tag(self, e):
        name = call_name(e)
        if name in ("xr.where", "xarray.where") and len(e.args) >= 2:
            return self.tag(e.args[1])
        if name in ("xr.concat", "xarray.concat") and e.args:
            d = kwarg(e, "dim") or (e.args[1] if len(e.args) > 1 else None)
            seq = e.args[0]
            if isinstance(seq, ast.Name):
                return self.env.get(seq.id)
            if isinstance(seq, (ast.List, ast.Tuple)):
                tags = [self.tag(x) for x in seq.elts]
                if tags and all(t == tags[0] for t in tags):
                    return tags[0]
                if d is not None and not self.is_dim(d):
                    # concatenation along another dimension: pieces cut from the same object keep its dir order
                    known = [t for t in tags if t is not None]
                    if known and all(t == known[0] for t in known):
                        return known[0]
            return None
        if name in ("np.array", "np.asarray", "list", "tuple", "np.atleast_1d", "numpy.array", "np.asanyarray") and e.args:
            return self.tag(e.args[0])
        if name in ("regrid_spec", "smooth_spec"):
            return self.tag(e.args[0]) if e.args else None
        if isinstance(e.func, ast.Attribute):
            m = e.func.attr
            recv = e.func.value
            t = self.tag(recv)
            if m == "sortby":
                a = e.args[0] if e.args else kwarg(e, "variables")
                if self.is_dim(a):
                    desc = kwarg(e, "ascending")
                    if desc is not None and self.repo.const(self.mod, desc) is False:
                        return ("sorted_desc",)
                    return SORTED
                return t
            if m in ("sel", "isel"):
                spec = self._indexers(e)
                if self.dim in spec:
                    ix = spec[self.dim]
                    if m == "isel" and isinstance(ix, ast.Name) and ix.id in getattr(self, "unique_index", ()):
                        return SORTED
                    if m == "sel":
                        ct = self.coord_of(ix)
                        if ct is not None:
                            return ct if ct != ("unk",) else None      # adopts the order of the labels selected
                        if isinstance(ix, ast.Call) and call_name(ix) == "slice":
                            return t
                        if isinstance(ix, ast.Name) and ix.id in self.env:
                            return self.env[ix.id]
                        return None
                    return t
                return t
            if m in ("interp", "interp_like", "reindex", "reindex_like"):
                spec = self._indexers(e)
                if self.dim in spec:
                    ix = spec[self.dim]
                    ct = self.coord_of(ix)
                    if ct is not None:
                        return ct if ct != ("unk",) else None
                    if isinstance(ix, ast.Name):
                        return self.env.get(ix.id)
                    return None
                return t
            if m == "assign_coords":
                return t
            if m in KEEP or m in ("sum", "max", "min", "std", "cumsum", "diff", "isel", "argmax"):
                return t
            if m == "stack" or m == "unstack":
                return t
        return None

    def _indexers(self, e):
        out = {}
        for k in e.keywords:
            if k.arg is not None:
                out[k.arg] = k.value
            elif isinstance(k.value, ast.Dict):
                for kk, vv in zip(k.value.keys, k.value.values):
                    n = self.repo.const(self.mod, kk) if kk is not None else None
                    if isinstance(n, str):
                        out[n] = vv
        for a in e.args:
            if isinstance(a, ast.Dict):
                for kk, vv in zip(a.keys, a.values):
                    n = self.repo.const(self.mod, kk) if kk is not None else None
                    if isinstance(n, str):
                        out[n] = vv
        return out

    # ---- checks on expressions -------------------------------------------------------------------
    def check_expr(self, e, in_angle=False):
        for n in ast.walk(e):
            if isinstance(n, ast.Call) and isinstance(n.func, ast.Attribute):
                m = n.func.attr
                recv = n.func.value
                if m in ("isel", "sel"):
                    spec = self._indexers(n)
                    if self.dim in spec:
                        ix = spec[self.dim]
                        t = self.tag(recv)
                        self.checked += 1
                        if m == "isel" and isinstance(ix, ast.Name) and ix.id in getattr(self, "unique_index", ()):
                            continue        # positions computed by np.unique(values, return_index=True): order-independent by construction
                        if m == "isel" and self._caller_order(t) and not self._full_slice(ix):
                            self.event("POS", n, f"positional selection along '{self.dim}' on data stored in the caller's order "
                                                 f"({self._show(t)}): which bin is meant depends on how the directions happen to be stored")
                        if m == "sel" and isinstance(ix, ast.Call) and call_name(ix) == "slice" and self._not_sorted(t):
                            self.event("SLICE", n, f"label slice along '{self.dim}' on data not sorted ascending by {self.dim} "
                                                   f"({self._show(t)}): on a descending or unsorted index the slice is empty or wrong")
                if m in ("roll", "shift"):
                    spec = {k.arg: k.value for k in n.keywords if k.arg}
                    sh = kwarg(n, "shifts")
                    if self.dim in spec or (sh is not None and self.dim in (self.repo.const(self.mod, sh) or {})) or \
                            (n.args and isinstance(self.repo.const(self.mod, n.args[0]), dict) and self.dim in self.repo.const(self.mod, n.args[0])):
                        t = self.tag(recv)
                        self.checked += 1
                        if t is None or self._not_sorted(t):
                            self.event("POS", n, f"{m}() shifts along '{self.dim}' in storage-index space on data whose stored "
                                                 f"order is the caller's ({self._show(t)}); a whole-bin rotation is a circular shift "
                                                 "only for ascending storage")
                if m == "assign_coords":
                    self.check_assign_coords(n, recv)
            if isinstance(n, ast.Call) and call_name(n).split(".")[-1] in ("diff", "gradient", "ediff1d") and n.args and not isinstance(n.func.value if isinstance(n.func, ast.Attribute) else None, type(None)):
                # np.diff(<dir coordinate values>): differences of NEIGHBOURS IN STORAGE
                base = n.args[0] if call_name(n).split(".")[0] in ("np", "numpy") else None
                ct = self.coord_of(base) if base is not None else None
                if ct is not None and ct != ("unk",):
                    self.checked += 1
                    if self._caller_order(ct):
                        self.event("POS", n, f"'{unparse(n)[:60]}' differences neighbouring STORED {self.dim} values of caller-ordered data "
                                             f"({self._show(ct)}): spacing / circularity derived from it is wrong unless the caller stored them ascending")
                elif isinstance(base, ast.Name) and base.id in ("dir", "dirs", self.dim) and self.env.get(base.id) is not None and self._caller_order(self.env.get(base.id)):
                    # np.diff(dir) on the caller-supplied direction array of a numpy-level kernel: the SIGNED stored differences (negative for descending
                    # or rolled storage) - a width or a sign derived from them depends on the stored order
                    self.checked += 1
                    self.event("POS", n, f"'{unparse(n)[:60]}' takes the signed differences of the caller-supplied direction array in stored order: their "
                                         "mean / sign is negative for descending or rolled storage (use the circular difference of two elements)")
            if isinstance(n, ast.Subscript):
                # X.dir[k] / X[dim][k] / dirs[k] with constant k
                ct = self.coord_of(n.value)
                if ct is not None and ct != ("unk",) and self._const_pos(n.slice):
                    self.checked += 1
                    if self._caller_order(ct) and not self._inside_angle(n) and not self._feeds_circular_fold(n):
                        self.event("POS", n, f"'{unparse(n)}' reads the {self.dim} coordinate at a storage position of caller-ordered "
                                             f"data ({self._show(ct)}): first/last stored is not lowest/highest")
                elif isinstance(n.value, ast.Name) and self.env.get(n.value.id) is not None and self._caller_order(self.env.get(n.value.id)) \
                        and n.value.id in ("dir", "dirs", self.dim) and self._const_pos(n.slice) and not self._inside_angle(n) and not self._feeds_circular_fold(n):
                    self.checked += 1
                    self.event("POS", n, f"'{unparse(n)}' takes a storage position of the caller-supplied direction array: "
                                         "first/last stored is not lowest/highest unless the caller sorted it")

    def _feeds_circular_fold(self, n):
        """dir[k] bound to a name that is only ever used as `<name> % 360` inside an absolute difference folded by
        minimum(d, 360 - d): the body of utils.angle written in place."""
        # dir[k] (% 360) used directly as an operand of the difference d of min(|d|, 360 - |d|)
        q = n
        p_ = getattr(q, "_parent", None)
        if isinstance(p_, ast.BinOp) and isinstance(p_.op, ast.Mod) and p_.left is q:
            q, p_ = p_, getattr(p_, "_parent", None)
        if isinstance(p_, ast.BinOp) and isinstance(p_.op, ast.Sub):
            from .rules.c05 import _folded_circularly
            if _folded_circularly(self.fi, p_):
                return True
        st = n
        while st is not None and not isinstance(st, ast.stmt):
            st = getattr(st, "_parent", None)
        if not isinstance(st, ast.Assign):
            return False
        names = []
        tg = st.targets[0]
        if isinstance(tg, ast.Name) and st.value is n:
            names = [tg.id]
        elif isinstance(tg, (ast.Tuple, ast.List)) and isinstance(st.value, (ast.Tuple, ast.List)) and len(tg.elts) == len(st.value.elts):
            names = [t.id for t, v in zip(tg.elts, st.value.elts) if v is n and isinstance(t, ast.Name)]
        if not names:
            return False
        fn = self.fi.node
        fold = any(isinstance(c, ast.Call) and call_name(c).split(".")[-1] in ("minimum", "fmin", "min") and len(c.args) == 2 and
                   isinstance(c.args[1], ast.BinOp) and isinstance(c.args[1].op, ast.Sub) and self.repo.const(self.mod, c.args[1].left) == 360 and
                   unparse(c.args[1].right) == unparse(c.args[0]) for c in ast.walk(fn))
        if not fold:
            return False
        for nm in names:
            for u in ast.walk(fn):
                if isinstance(u, ast.Name) and u.id == nm and isinstance(u.ctx, ast.Load):
                    p = getattr(u, "_parent", None)
                    if not (isinstance(p, ast.BinOp) and isinstance(p.op, ast.Mod) and p.left is u and self.repo.const(self.mod, p.right) == 360):
                        return False
        return True

    def _inside_angle(self, n):
        p = getattr(n, "_parent", None)
        while p is not None and not isinstance(p, ast.stmt):
            if isinstance(p, ast.Call) and call_name(p).split(".")[-1] == "angle":
                return True
            p = getattr(p, "_parent", None)
        return False

    def _const_pos(self, s):
        if isinstance(s, ast.Slice):
            return False
        v = self.repo.const(self.mod, s)
        return isinstance(v, int) and not isinstance(v, bool)

    def _full_slice(self, ix):
        return isinstance(ix, ast.Call) and call_name(ix) == "slice" and all(
            isinstance(a, ast.Constant) and a.value is None for a in ix.args)

    @staticmethod
    def atoms(t):
        if t is None:
            return frozenset()
        if isinstance(t, frozenset):
            return t
        return frozenset([t])

    def _caller_order(self, t):
        return any(isinstance(a, tuple) and a[0] == "in" for a in self.atoms(t))

    def _not_sorted(self, t):
        return any(a != SORTED for a in self.atoms(t))

    def _differ(self, a, b):
        return a is not None and b is not None and self.atoms(a) != self.atoms(b)

    def _show(self, t):
        if t is None:
            return "unknown order"
        if isinstance(t, frozenset):
            return " or ".join(sorted(self._show(a) for a in t))
        if t == SORTED:
            return "sorted ascending"
        if isinstance(t, tuple) and t[0] == "in":
            return f"order of '{t[1]}'"
        return str(t)

    def check_assign_coords(self, call, recv):
        t = self.tag(recv)
        srcs = []
        for a in call.args:
            if isinstance(a, ast.Dict):
                for kk, vv in zip(a.keys, a.values):
                    if kk is not None and self.is_dim(kk):
                        srcs.append(vv)
            elif isinstance(a, ast.Attribute) and a.attr == "coords":
                st = self.tag(a.value)
                self.checked += 1
                if self._differ(st, t):
                    self.event("LABEL", call, f"coordinates of {unparse(a.value)} ({self._show(st)}) are pasted onto data whose "
                                              f"'{self.dim}' order is {self._show(t)}: every bin gets another bin's direction label")
        for k in call.keywords:
            if k.arg == self.dim:
                srcs.append(k.value)
            elif k.arg is None and isinstance(k.value, ast.Dict):
                for kk, vv in zip(k.value.keys, k.value.values):
                    if kk is not None and self.is_dim(kk):
                        srcs.append(vv)
        for v in srcs:
            ct = self.coord_of(v)
            self.checked += 1
            if ct is not None and ct != ("unk",) and self._differ(ct, t):
                self.event("LABEL", call, f"'{self.dim}' labels derived from {self._show(ct)} are assigned onto data whose order is "
                                          f"{self._show(t)}: labels no longer follow the data")

    # ---- statements ------------------------------------------------------------------------------
    def block(self, stmts):
        for s in stmts:
            self.stmt(s)

    def stmt(self, s):
        if isinstance(s, ast.Assign):
            self.check_expr(s.value)
            t = self.tag(s.value)
            ct = self.coord_of(s.value)
            for tg in s.targets:
                if isinstance(tg, ast.Name):
                    self.env[tg.id] = t
                    if ct is not None and ct != ("unk",):
                        self.derived[tg.id] = ct
                        if t is None:
                            self.env[tg.id] = None
                    else:
                        self.derived.pop(tg.id, None)
                elif isinstance(tg, ast.Subscript) and self.is_dim(tg.slice):
                    # X[dim] = value
                    xt = self.tag(tg.value)
                    self.checked += 1
                    if ct is not None and ct != ("unk",) and self._differ(ct, xt):
                        self.event("LABEL", s, f"'{self.dim}' labels derived from {self._show(ct)} are assigned onto data whose "
                                               f"order is {self._show(xt)}: every bin is relabelled with another bin's direction")
                elif isinstance(tg, (ast.Tuple, ast.List)):
                    for e in tg.elts:
                        if isinstance(e, ast.Name):
                            self.env[e.id] = t
                    # `_, index = np.unique(X[dim], return_index=True)`: index selects the first occurrence of each value IN ASCENDING
                    # VALUE ORDER, whatever the stored order of X: X.isel(dim=index) is sorted and free of duplicates
                    v = s.value
                    if isinstance(v, ast.Call) and call_name(v).split(".")[-1] == "unique" and v.args and len(tg.elts) == 2 \
                            and kwarg(v, "return_index") is not None and self.repo.const(self.mod, kwarg(v, "return_index")) is True \
                            and self.coord_of(v.args[0]) is not None and isinstance(tg.elts[1], ast.Name):
                        self.unique_index = getattr(self, "unique_index", set()) | {tg.elts[1].id}
        elif isinstance(s, ast.AugAssign):
            self.check_expr(s.value)
        elif isinstance(s, ast.Expr):
            self.check_expr(s.value)
        elif isinstance(s, ast.Return):
            if s.value is not None:
                self.check_expr(s.value)
        elif isinstance(s, ast.If):
            self.check_expr(s.test)
            eq = self._equals_test(s.test)
            e0, d0 = dict(self.env), dict(self.derived)
            if eq and eq[2] is True:
                self._unify(eq)
            self.block(s.body)
            e1, d1 = self.env, self.derived
            self.env, self.derived = dict(e0), dict(d0)
            if eq and eq[2] is False:
                self._unify(eq)
            self.block(s.orelse)
            for k in set(e1) | set(self.env):
                a, b = e1.get(k), self.env.get(k)
                if a == b:
                    self.env[k] = a
                elif a is None or b is None:
                    self.env[k] = None
                else:
                    self.env[k] = self.atoms(a) | self.atoms(b)
            self.derived = {k: v for k, v in d1.items() if self.derived.get(k) == v}
        elif isinstance(s, (ast.For, ast.While)):
            if isinstance(s, ast.For):
                self.check_expr(s.iter)
            self.block(s.body)
            self.block(s.orelse)
        elif isinstance(s, ast.With):
            self.block(s.body)
        elif isinstance(s, ast.Try):
            self.block(s.body)
            for h in s.handlers:
                self.block(h.body)
            self.block(s.orelse)
            self.block(s.finalbody)

    def _equals_test(self, t):
        """`not A[dim].equals(B[dim])` -> (A, B, truth-of-equality-in-BODY)"""
        neg = False
        if isinstance(t, ast.UnaryOp) and isinstance(t.op, ast.Not):
            neg, t = True, t.operand
        if isinstance(t, ast.Call) and isinstance(t.func, ast.Attribute) and t.func.attr in ("equals", "identical") and t.args:
            a, b = t.func.value, t.args[0]

            def owner(e):
                if isinstance(e, ast.Subscript) and self.is_dim(e.slice):
                    return e.value
                if isinstance(e, ast.Attribute) and e.attr == self.dim:
                    return e.value
                return None
            oa, ob = owner(a), owner(b)
            if oa is not None and ob is not None:
                return (oa, ob, not neg)
        return None

    def _unify(self, eq):
        a, b, _ = eq
        ta, tb = self.tag(a), self.tag(b)
        if isinstance(a, ast.Name) and tb is not None:
            self.env[a.id] = tb
        elif isinstance(b, ast.Name) and ta is not None:
            self.env[b.id] = ta


def analyse_package(repo, dim):
    out = []
    checked = 0
    nfunc = 0
    for fi in repo.all_funcs():
        oa = OrderAnalysis(repo, fi, dim)
        ev = oa.run()
        checked += oa.checked
        nfunc += 1
        for kind, node, msg in ev:
            out.append((fi, kind, node, msg))
    return out, checked, nfunc
