"""Self-test of the checkers (development aid, NOT a registered check): behaviour-preserving ("neutral") variants of the
repository must give exactly the verdict of the unmodified tree for every property.

  ./vcheck selftest [neutral] [-j N] [--keep]

A scratch copy of /repo/wavespectra is made under $TMPDIR (outside /repo and /verif), one AST-computed transformation is
applied, every check is run with VSA_REPO pointing at the copy, and the copy is removed.
"""
import ast
import concurrent.futures as cf
import json
import os
import re
import shutil
import subprocess
import sys
import tempfile

VERIF = os.path.dirname(os.path.dirname(os.path.abspath(__file__)))
REPO = os.environ.get("VSA_REPO", "/repo")
PROPS = [f"C{n:02d}" for n in range(1, 21)]


# ---- neutral transformations -----------------------------------------------------------------------

def t_reformat(tree, path):
    return tree            # ast.unparse drops comments / blank lines / line continuations: every line number moves


class _SwapMult(ast.NodeTransformer):
    def visit_BinOp(self, n):
        self.generic_visit(n)
        if isinstance(n.op, ast.Mult) and not isinstance(n.left, (ast.List, ast.Constant, ast.JoinedStr, ast.Tuple)) \
                and not isinstance(n.right, (ast.List, ast.JoinedStr, ast.Tuple)) and not (isinstance(n.right, ast.Constant) and isinstance(n.right.value, str)):
            # a * b -> b * a only when neither side can be a sequence repetition operand written as a literal
            n.left, n.right = n.right, n.left
        return n


def t_swap_mult(tree, path):
    return _SwapMult().visit(tree)


class _RenameLocals(ast.NodeTransformer):
    SKIP_FUNCS = {"scale_by_hs", "conditional", "_my_name"}     # eval()/frame inspection see local names

    def visit_FunctionDef(self, fn):
        if fn.name in self.SKIP_FUNCS:
            return fn
        params = {a.arg for a in fn.args.posonlyargs + fn.args.args + fn.args.kwonlyargs}
        if fn.args.vararg:
            params.add(fn.args.vararg.arg)
        if fn.args.kwarg:
            params.add(fn.args.kwarg.arg)
        assigned, declared = set(), set()
        nested = [n for n in ast.walk(fn) if isinstance(n, (ast.FunctionDef, ast.Lambda, ast.ClassDef)) and n is not fn]
        nested_names = {x.id for n in nested for x in ast.walk(n) if isinstance(x, ast.Name)}
        for n in ast.walk(fn):
            if isinstance(n, ast.Name) and isinstance(n.ctx, ast.Store):
                assigned.add(n.id)
            if isinstance(n, (ast.Global, ast.Nonlocal)):
                declared |= set(n.names)
            if isinstance(n, (ast.Import, ast.ImportFrom)):
                for a in n.names:
                    declared.add((a.asname or a.name).split(".")[0])
        ren = {x: x + "_v" for x in assigned - params - declared - nested_names if not x.startswith("__")}
        # comprehension-scoped names are fine to rename consistently as well
        for n in ast.walk(fn):
            if isinstance(n, ast.Name) and n.id in ren:
                n.id = ren[n.id]
        for n in fn.body:
            self.generic_visit(n) if isinstance(n, ast.ClassDef) else None
        return fn

    visit_AsyncFunctionDef = visit_FunctionDef


def t_rename_locals(tree, path):
    return _RenameLocals().visit(tree)


class _SplitReturn(ast.NodeTransformer):
    def visit_FunctionDef(self, fn):
        self.generic_visit(fn)
        return fn

    def visit_Return(self, r):
        if r.value is None or isinstance(r.value, (ast.Name, ast.Constant)):
            return r
        tmp = ast.Name(id="_ret_value", ctx=ast.Store())
        return [ast.Assign(targets=[tmp], value=r.value, lineno=r.lineno, col_offset=0),
                ast.Return(value=ast.Name(id="_ret_value", ctx=ast.Load()))]


def t_split_return(tree, path):
    return _SplitReturn().visit(tree)


class _DimPositional(ast.NodeTransformer):
    RED = {"sum", "max", "min", "mean"}

    def visit_Call(self, c):
        self.generic_visit(c)
        if isinstance(c.func, ast.Attribute) and c.func.attr in self.RED and not c.args:
            for i, k in enumerate(c.keywords):
                if k.arg == "dim":
                    c.args = [k.value]
                    del c.keywords[i]
                    break
        return c


def t_dim_positional(tree, path):
    return _DimPositional().visit(tree)


def t_docstrings(tree, path):
    for n in ast.walk(tree):
        if isinstance(n, (ast.FunctionDef, ast.ClassDef)):
            n.body.insert(0, ast.Expr(value=ast.Constant(value="neutral variant: inserted docstring\n\nmore text\n")))
    return tree


class _InsertNoops(ast.NodeTransformer):
    """A no-op statement (`_noop = None`-free: a bare string expression, like a comment) between every two statements of
    every function body / branch / loop body: statement adjacency and body[-1]/body[0] positions all move."""

    def _pad(self, stmts):
        out = []
        for i, st in enumerate(stmts):
            if i or not (isinstance(st, ast.Expr) and isinstance(getattr(st, "value", None), ast.Constant)):
                self.k = getattr(self, "k", 0) + 1
                out.append(ast.Expr(value=ast.Constant(value="neutral variant: no-op")) if self.k % 2 else
                           ast.parse('logging.getLogger(__name__).debug("neutral variant")').body[0])
            out.append(st)
        return out

    def generic_visit(self, node):
        super().generic_visit(node)
        if isinstance(node, ast.Module) or isinstance(node, ast.ClassDef):
            return node
        for f in ("body", "orelse", "finalbody"):
            v = getattr(node, f, None)
            if isinstance(v, list) and v and isinstance(v[0], ast.stmt):
                # keep a docstring first
                if f == "body" and isinstance(node, (ast.FunctionDef,)) and isinstance(v[0], ast.Expr) and isinstance(v[0].value, ast.Constant) \
                        and isinstance(v[0].value.value, str):
                    setattr(node, f, [v[0]] + self._pad(v[1:]))
                else:
                    setattr(node, f, self._pad(v))
        return node


def t_insert_noops(tree, path):
    tree = _InsertNoops().visit(tree)
    i = 0
    while i < len(tree.body) and ((isinstance(tree.body[i], ast.Expr) and isinstance(tree.body[i].value, ast.Constant)) or
                                  (isinstance(tree.body[i], ast.ImportFrom) and tree.body[i].module == "__future__")):
        i += 1
    tree.body.insert(i, ast.parse("import logging").body[0])
    return tree


class _HoistConstants(ast.NodeTransformer):
    """Numeric literals used in function bodies (|v| > 1, not inside subscripts / default arguments / decorators) become
    module-level constants `_K<n>`: rules must compare constant-propagated VALUES, not spellings."""

    def __init__(self):
        self.table = {}
        self.depth = 0
        self.block = 0

    def visit_FunctionDef(self, fn):
        self.depth += 1
        fn.body = [self.visit(b) for b in fn.body]
        self.depth -= 1
        return fn

    def visit_Subscript(self, n):
        self.block += 1
        self.generic_visit(n)
        self.block -= 1
        return n

    def visit_Lambda(self, n):
        return n

    def visit_JoinedStr(self, n):
        return n

    def visit_Call(self, c):
        # keep literals that select behaviour of library calls by identity of small ints (axis=, ndmin=, range bounds): only
        # hoist inside arithmetic
        c.func = self.visit(c.func)
        c.args = [self.visit(a) if isinstance(a, (ast.BinOp, ast.UnaryOp, ast.Call, ast.Compare, ast.IfExp)) else a for a in c.args]
        for k in c.keywords:
            if isinstance(k.value, (ast.BinOp, ast.UnaryOp, ast.Call, ast.Compare, ast.IfExp)):
                k.value = self.visit(k.value)
        return c

    def visit_Constant(self, n):
        if self.depth and not self.block and type(n.value) in (int, float) and abs(n.value) > 1 and n.value == n.value:
            nm = self.table.setdefault((type(n.value).__name__, n.value), f"_K{len(self.table)}")
            return ast.copy_location(ast.Name(id=nm, ctx=ast.Load()), n)
        return n


def t_hoist_constants(tree, path):
    h = _HoistConstants()
    tree = h.visit(tree)
    if h.table:
        defs = [ast.Assign(targets=[ast.Name(id=nm, ctx=ast.Store())], value=ast.Constant(value=v), lineno=1, col_offset=0)
                for (_, v), nm in h.table.items()]
        i = 0
        while i < len(tree.body) and (isinstance(tree.body[i], (ast.Import, ast.ImportFrom)) or
                                      (isinstance(tree.body[i], ast.Expr) and isinstance(tree.body[i].value, ast.Constant))):
            i += 1
        tree.body[i:i] = defs
    return tree


def t_reorder_functions(tree, path):
    """Reverse every maximal run of consecutive undecorated top-level function definitions (definition order is
    immaterial for functions that are only called after import)."""
    out, run = [], []
    for st in tree.body + [None]:
        if isinstance(st, ast.FunctionDef) and not st.decorator_list:
            run.append(st)
        else:
            out.extend(reversed(run))
            run = []
            if st is not None:
                out.append(st)
    tree.body = out
    return tree


class _NoElseReturn(ast.NodeTransformer):
    """pylint's no-else-return / no-else-raise / no-else-continue: `if c: ...; return x  else: B` -> `if c: ...; return x` + B."""

    def _fix(self, stmts):
        out = []
        for st in stmts:
            if isinstance(st, ast.If) and st.orelse and isinstance(st.body[-1], (ast.Return, ast.Raise, ast.Continue, ast.Break)):
                tail = st.orelse
                st.orelse = []
                out.append(st)
                out.extend(self._fix(tail))
            else:
                out.append(st)
        return out

    def generic_visit(self, node):
        super().generic_visit(node)
        for f in ("body", "orelse", "finalbody"):
            v = getattr(node, f, None)
            if isinstance(v, list) and v and isinstance(v[0], ast.stmt):
                setattr(node, f, self._fix(v))
        return node


def t_no_else_return(tree, path):
    return _NoElseReturn().visit(tree)


class _FlipCompare(ast.NodeTransformer):
    FLIP = {ast.Lt: ast.Gt, ast.Gt: ast.Lt, ast.LtE: ast.GtE, ast.GtE: ast.LtE}

    def visit_Compare(self, c):
        self.generic_visit(c)
        if len(c.ops) == 1 and type(c.ops[0]) in self.FLIP:
            c.left, c.comparators, c.ops = c.comparators[0], [c.left], [self.FLIP[type(c.ops[0])]()]
        return c


def t_flip_compare(tree, path):
    return _FlipCompare().visit(tree)


NEUTRAL_PY = {
    "reformat": t_reformat, "swap_mult": t_swap_mult, "rename_locals": t_rename_locals, "split_return": t_split_return,
    "dim_positional": t_dim_positional, "docstrings": t_docstrings,
    "insert_noops": t_insert_noops, "hoist_constants": t_hoist_constants, "reorder_functions": t_reorder_functions,
    "no_else_return": t_no_else_return, "flip_compare": t_flip_compare,
}


def c_strip_comments(src):
    src = re.sub(r"/\*.*?\*/", lambda m: "\n" * m.group(0).count("\n"), src, flags=re.S)
    return re.sub(r"//[^\n]*", "", src)


def c_blank_lines(src):
    return "\n\n/* neutral variant */\n" + src.replace(";\n", ";\n\n")


def c_rename_locals(src):
    for a in ("msave", "ic_label", "zpmax", "iempty", "ipt", "ip", "ipp", "ippp", "ic_dist", "mask", "iwshed", "init", "jl", "jn", "diff", "ep1",
              "iq_end", "iq_start", "ifict_pixel"):
        src = re.sub(rf"\b{a}\b", a + "_v", src)
    return src


def c_increments(src):
    # `x++` as a statement / loop step -> `x += 1`
    src = re.sub(r"\b(\w+)\+\+\s*\)", r"\1 += 1)", src)
    return re.sub(r"^(\s*)(\w+)\+\+;", r"\1\2 += 1;", src, flags=re.M)


NEUTRAL_C = {"c_increments": c_increments, "c_strip_comments": c_strip_comments, "c_blank_lines": c_blank_lines, "c_rename_locals": c_rename_locals}


# ---- driver --------------------------------------------------------------------------------------------

def make_variant(name, root):
    dst = os.path.join(root, "wavespectra")
    shutil.copytree(os.path.join(REPO, "wavespectra"), dst, ignore=shutil.ignore_patterns("__pycache__", "*.so"))
    if name in NEUTRAL_PY:
        for dp, dn, fn in os.walk(dst):
            for f in fn:
                if f.endswith(".py"):
                    p = os.path.join(dp, f)
                    tree = ast.parse(open(p).read())
                    tree = NEUTRAL_PY[name](tree, p)
                    ast.fix_missing_locations(tree)
                    out = ast.unparse(tree)
                    compile(out, p, "exec")
                    open(p, "w").write(out + "\n")
    elif name in NEUTRAL_C:
        p = os.path.join(dst, "partition", "specpart", "specpart.c")
        src = open(p).read()
        open(p, "w").write(NEUTRAL_C[name](src))
    elif name == "identity":
        pass
    else:
        raise SystemExit(f"unknown variant {name}")


def verdict(prop, root, evid):
    env = dict(os.environ, VSA_REPO=root, VSA_EVID=evid)
    p = subprocess.run([os.path.join(VERIF, "vcheck"), prop], capture_output=True, text=True, env=env, cwd=VERIF)
    known = sorted(l.split(" -- ")[0] for l in p.stdout.splitlines() if l.startswith("KNOWN-FINDING"))
    viol = [l.strip() for l in p.stdout.splitlines() if l.startswith("  ") and " R-C" in l]
    err = [l for l in p.stdout.splitlines() if l.startswith("ANALYSIS-ERROR")]
    return {"rc": p.returncode, "known": len(known), "viol": viol[:12], "err": err[:1]}


def run_variant(name):
    global PROPS
    if os.environ.get("VSA_PROPS"):
        PROPS = os.environ["VSA_PROPS"].split(",")
    root = tempfile.mkdtemp(prefix=f"vsa-{name}-")
    evid = os.path.join(root, "_evidence")
    try:
        make_variant(name, root)
        return name, {p: verdict(p, root, evid) for p in PROPS}
    finally:
        shutil.rmtree(root, ignore_errors=True)


def main(argv):
    jobs = 8
    names = ["identity"] + list(NEUTRAL_PY) + list(NEUTRAL_C)
    if "-j" in argv:
        jobs = int(argv[argv.index("-j") + 1])
    for a in argv:
        if a.startswith("--props="):
            os.environ["VSA_PROPS"] = a.split("=", 1)[1]
    sel = [a for a in argv if a in names]
    if sel:
        names = ["identity"] + [n for n in sel if n != "identity"]
    results = {}
    with cf.ProcessPoolExecutor(max_workers=jobs) as ex:
        for name, res in ex.map(run_variant, names):
            results[name] = res
    base = results["identity"]
    bad = 0
    for name, res in results.items():
        if name == "identity":
            continue
        diffs = [(p, r) for p, r in res.items() if (r["rc"], r["known"]) != (base[p]["rc"], base[p]["known"])]
        print(f"variant {name:16s}: {len(res) - len(diffs)}/{len(res)} stable")
        for p, r in diffs:
            bad += 1
            print(f"   {p}: rc {base[p]['rc']}->{r['rc']} known {base[p]['known']}->{r['known']} {(r["viol"] or r["err"])}")
    print(f"neutral-variant self-test: {len(results) - 1} variants x 20 properties, {bad} verdict changes")
    return 1 if bad else 0


if __name__ == "__main__":
    sys.exit(main(sys.argv[1:]))
