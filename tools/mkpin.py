#!/usr/bin/env python3
"""Development helper: regenerate sa/pin_tables.json - the names that existed in /repo when the rules were written.

The E0 normalisations only touch what is NEW relative to this table (a function extracted, renamed or split off by a refactoring, a local
variable introduced to name a sub-expression); the names in the table are the anchors the rules were written against.  Regenerate only
after reviewing every rule against the new names (it is a frozen table, like the idiom tables)."""
import ast, json, os, re, subprocess, sys
REPO = sys.argv[1] if len(sys.argv) > 1 else "/repo"
out = {"functions": {}, "locals": {}, "c_functions": {}}
for root, dirs, files in os.walk(os.path.join(REPO, "wavespectra")):
    dirs[:] = [d for d in dirs if d not in ("__pycache__",)]
    for f in files:
        if not f.endswith(".py"):
            continue
        p = os.path.join(root, f)
        mod = os.path.relpath(p, REPO)[:-3].replace("/", ".")
        if mod.endswith(".__init__"):
            mod = mod[:-9]
        tree = ast.parse(open(p, encoding="utf-8").read())
        def visit(body, prefix):
            for n in body:
                if isinstance(n, (ast.FunctionDef, ast.AsyncFunctionDef)):
                    q = f"{prefix}.{n.name}"
                    a = n.args
                    out["functions"][q] = [x.arg for x in a.posonlyargs + a.args + a.kwonlyargs] + ([f"*{a.vararg.arg}"] if a.vararg else []) + ([f"**{a.kwarg.arg}"] if a.kwarg else [])
                    loc = set()
                    for x in ast.walk(n):
                        if isinstance(x, ast.Name) and isinstance(x.ctx, ast.Store):
                            loc.add(x.id)
                    out["locals"][q] = sorted(loc)
                elif isinstance(n, ast.ClassDef):
                    visit(n.body, f"{prefix}.{n.name}")
        visit(tree.body, mod)
cdir = os.path.join(REPO, "wavespectra/partition/specpart")
for f in sorted(os.listdir(cdir)):
    if f.endswith(".c"):
        src = open(os.path.join(cdir, f)).read()
        src = re.sub(r"/\*.*?\*/", " ", src, flags=re.S)
        src = re.sub(r"//[^\n]*", " ", src)
        for m in re.finditer(r"^[A-Za-z_][\w \t\*]*?\b([A-Za-z_]\w*)\s*\(([^;{)]*)\)\s*\{", src, flags=re.M):
            name, params = m.group(1), m.group(2).strip()
            if name in ("if", "for", "while", "switch"):
                continue
            out["c_functions"].setdefault(f, {})[name] = 0 if params in ("", "void") else params.count(",") + 1
json.dump(out, open(os.path.join(os.path.dirname(os.path.dirname(os.path.abspath(__file__))), "sa", "pin_tables.json"), "w"), indent=0, sort_keys=True)
print(len(out["functions"]), "functions,", sum(map(len, out["locals"].values())), "locals,", out["c_functions"])
