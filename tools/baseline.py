#!/usr/bin/env python3
"""Run the pinned test suite of a wavespectra tree and compare with BASELINE.json.

usage: baseline.py [repo_dir]   (default /repo)
exit 0 iff every test in BASELINE.stable_pass passed.
Development / hook-baseline helper; not a property check.
"""
import json, os, subprocess, sys, tempfile, xml.etree.ElementTree as ET

repo = sys.argv[1] if len(sys.argv) > 1 else "/repo"
base = json.load(open("/root/.vp/BASELINE.json"))
fd, xml = tempfile.mkstemp(suffix=".xml", prefix="vsa-junit-")
os.close(fd)
try:
    env = dict(os.environ)
    env.pop("WAVESPECTRA_VERIF", None)
    cmd = ["/venv/bin/python", "-m", "pytest", "-q", "-p", "no:cacheprovider",
           "--timeout=900", "--continue-on-collection-errors", "-n", "8",
           f"--junitxml={xml}"]
    env["PYTHONPATH"] = repo
    subprocess.run(cmd, cwd=repo, env=env, stdout=subprocess.DEVNULL, stderr=subprocess.DEVNULL)
    passed = set()
    for tc in ET.parse(xml).getroot().iter("testcase"):
        if not any(c.tag in ("failure", "error", "skipped") for c in tc):
            passed.add(f"{tc.get('classname')}::{tc.get('name')}")
finally:
    os.unlink(xml)
missing = [t for t in base["stable_pass"] if t not in passed]
print(f"passed={len(passed)} baseline={len(base['stable_pass'])} baseline_missing={len(missing)}")
for t in missing:
    print("  MISSING", t)
sys.exit(1 if missing else 0)
