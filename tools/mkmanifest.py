#!/usr/bin/env python3
"""Regenerate /verif/MANIFEST.json from the table below (development helper)."""
import json
import os

HERE = os.path.dirname(os.path.dirname(os.path.abspath(__file__)))
CATEGORIES = {"exploration", "fault_enumeration", "model_checking", "proof", "translation_validation", "other"}
for _pid, _row in list(globals().get("CHECKS", {}).items()):
    pass

COMMON_TRUST = ("Trusted base: Python ast / clang 14 parser; the xarray/numpy API model tabulated in DESIGN.md section 3.2; "
                "attributes.yml as units oracle. A static check of necessary structural clauses is not a proof of the "
                "behaviour: ")

CHECKS = {
    # id: (armed, level category, level text, level_note (what is NOT decided), technique, design_ref)
    "C07": (True, "other",
            "Decides, for every path of every apply_ufunc call site in the package, that each argument carrying a core "
            "dimension is single-chunk along it (chunk({d:-1}) reaching definitions / allow_rechunk / dimension "
            "coordinate), and from the clang AST that the C routine always runs under the GIL. These are necessary "
            "conditions of 'succeeds for any chunking' and 'any scheduler'; they hold for all inputs by construction. Also: kernels of apply_ufunc sites write no module-level object / mutable default (effect summaries over everything they reach) and the C wrapper keeps no static or file-scope object, so concurrent dask tasks share nothing writable.",
            "numerical equality chunked vs in-memory and dask's own graph correctness are not decided.",
            "custom AST dataflow lint (CFG + reaching definitions over apply_ufunc sites) + clang JSON AST who-may-call rule",
            "DESIGN.md section 4 C07"),
    "C17": (True, "other",
            "Whole-package interprocedural effect analysis: for every public entry point (functions, accessor methods, "
            "plugin writers) it decides that no write sink (item/attribute/.values/augmented assignment, in-place methods, "
            "out=, inplace=True) can reach a container, variable object, buffer, coordinate object or coordinate buffer "
            "that may be identical with a parameter or the receiver, under an explicit alias model of xarray/numpy; plus a "
            "clang-AST rule that the C routine never stores through its input buffer. For this property the structural "
            "argument is essentially the whole argument, for all inputs and call sequences.",
            "soundness rests on the measured alias table (sa/xrmodel.py) and the stated assumptions (fancy isel copies; "
            "library calls outside the mutator table do not mutate); bit-for-bit equality itself is not executed.",
            "interprocedural may-alias / write-effect analysis (abstract interpretation over ast, summaries to fixpoint) + "
            "clang JSON AST store rule",
            "DESIGN.md section 4 C17"),
    "C18": (True, "other",
            "Enumerates statically all state that can outlive a call and decides it carries nothing: instance attributes of "
            "the xarray-cached accessor classes (wrapped reference / constant / derived, classified by the effect engine), "
            "memoising decorators, module-level objects and mutable defaults written from any public entry point "
            "(interprocedural summaries), input mutation (shared with C17), and the C extension's file-scope buffers "
            "(shape guard must imply both extents equal; buffers overwritten over their full range before first read). "
            "Two genuine defects on the pinned tree are listed as known findings. Also: every distinct write site on a module-level object is reported (a second writer cannot hide behind a known one); interpreter-wide settings (warning filters, numpy error state, ...) are changed only inside their restoring context manager.",
            "equality of results across arbitrary histories is not executed; counting-sort permutation in ptsort is an "
            "assumption; the alias model is the trusted base.",
            "typestate/ownership lint over ast (effect summaries) + definite-initialisation and guard-implication rules on "
            "the clang JSON AST",
            "DESIGN.md section 4 C18"),
    "C04": (True, "other",
            "A symbolic proof, for all grid extents mk, mth >= 1, that the neighbour table built by ptnghb is exactly the "
            "8-neighbourhood with the direction axis circular and the frequency axis clipped (each guarded store is "
            "decomposed by exact polynomial arithmetic into a legal cell; the enabled displacement multiset is checked for "
            "all 16 guard valuations), plus pairwise agreement of the layout facts (copy-in, copy-out, allocation order, "
            "shape extraction, C-contiguous float32 at every Python call site) and the early-exit condition of the "
            "watershed-line sweeps. The whole immersion walks on this table: a wrong entry splits or merges basins across "
            "the seam. Also: every whole-spectrum sweep in specpart.c covers all nspec bins; the watershed-line reassignment reads labels from one array and writes a snapshot framed by full copies.",
            "that immersion yields exactly one label per regional maximum, basin connectivity and shift-equivariance of "
            "tie-breaking are runtime properties of the Vincent-Soille algorithm and are NOT decided.",
            "clang JSON AST extraction + exact symbolic (polynomial) decomposition and finite case analysis; ast idiom rule "
            "for the call sites",
            "DESIGN.md section 4 C04"),
    "C20": (True, "other",
            "Native half: every one of the ~100 array accesses of specpart.c is a bounds obligation 0 <= index < extent "
            "(extents from the malloc sizes) discharged by a symbolic range analysis over the clang AST that holds for "
            "all grid shapes and level counts (intervals with polynomial ends in mk, mth, ihmax; reaching assignments, "
            "dominating conditions, counted loops, stored-value ranges, call bindings, widening/narrowing); use-after-free "
            "and the wrapper's unchecked preconditions are separate rules. Python half: 'cannot succeed' lints, ValueError "
            "discipline of argument validation, guard dominance in the peak kernels. Also: possibly empty partition lists never reach np.stack-like calls unguarded; overlapping boxes are rejected for every pair (shared with C09).",
            "termination of the immersion loops, NaN handling in C and finiteness of Python results are not decided; the "
            "counting-sort permutation and the FIFO queue discipline are stated assumptions.",
            "symbolic interval analysis (abstract interpretation) over the clang JSON AST + ast lints with CFG dominance",
            "DESIGN.md section 4 C20"),
    "C02": (True, "other",
            "Decides the structural definition of 'the peak': data-flow from every peak kernel's index argument back to "
            "the one locator applied to the direction-integrated spectrum at full precision; a comparison-only analysis "
            "of the locator (both neighbour tests strict, paddings repeat the array's own end element with matching diff "
            "labels, conjunction, zero fill, arg-max along freq) which is exactly 'largest interior strict local maximum, "
            "else 0'; NaN guards in the kernels; the data path of the peak direction; gamma's density source (one known "
            "finding).",
            "that the parabola vertex lies between the neighbouring bins (a numeric fact about the sampled values), ties between equal peaks and alpha's fitted value are not decided; the vertex FORMULA is (rational-function identity against the Lagrange form).",
            "custom ast rules: reaching-definition data-flow + comparison-only (finite ordering) analysis of the locator + exact rational-function normal form (polynomial arithmetic over Fractions) of the value returned by npstats.tps",
            "DESIGN.md section 4 C02"),
    "C03": (True, "other",
            "Path enumeration through each watershed kernel's partition loop proves that every (disjoint) watershed part is "
            "consumed exactly once - whole, or as a complementary pair of masked halves - from the ORIGINAL spectrum, so no "
            "bin is duplicated or lost; structural rules decide the order of operations (negated library Hs of the very "
            "partitions returned, pure permutation, truncate/pad after the sort, wind sea first), the exact-count case split "
            "(identity test for None, strict comparisons, [:n], n-len zero appends), the wind-sea fraction test, and sibling "
            "agreement between each wrapper's declared part size and its kernel. Also: accumulators start as zeros of the spectrum's own dtype; each wrapper binds (raw, smoothed) spectra in the kernel's order; every kernel parameter is read.",
            "that the masks equal the true basins is C04's matter; dtype rounding and ties between numerically equal "
            "partitions are not decided; np_hp01* merging logic is checked only for size agreement.",
            "custom ast rules: path enumeration (linear-consumption typestate) + structural ordering rules + sibling cross-check",
            "DESIGN.md section 4 C03"),
    "C05": (True, "other",
            "Decides the structural reasons results are layout- and storage-order independent: accepted-idiom dataflow at "
            "every call into the C extension (C-contiguous float32), circular difference wherever two stored directions are "
            "subtracted, an order-provenance abstract interpretation over every function (positional / slice operations only "
            "on data sorted in the same function; direction labels only assigned across equal provenance), no positional "
            "axis on labelled data, core-dim order matching kernel axis order, and the circular neighbour table (shared).",
            "equality under transposition and dtype width as such are not executed; only the direction axis is tracked "
            "(frequencies assumed ascending as the library does); one exemption (spread_hp01, width cancels) is tabled.",
            "order-provenance abstract interpretation over ast + idiom dataflow + sibling cross-check",
            "DESIGN.md section 4 C05"),
    "C06": (True, "other",
            "Provenance typing (per-spectrum data / shared coordinate / argument) over every xarray-level statistic, transform "
            "and partition wrapper decides that each reduction, cumulative, rolling, interpolation or sort on data names "
            "spectral dimensions only, that no float()/int()/.item() or Python branch condition depends on data, that every "
            "apply_ufunc is vectorised over the non-spectral dims, that the Dataset accessor re-exports the efth accessor "
            "unshadowed, and (shared C rules) that the native work buffers are rebuilt/overwritten per call and read a "
            "C-contiguous copy of exactly one spectrum. These structural facts are why position i cannot see position j. Also: no memo on the cached accessor (shared with C18); assign_coords only along spectral dimensions or wholesale from the function's own input.",
            "bit-exact equality batched vs single (floating-point association) is not decided; hmax is excluded by the "
            "property; parameter-name seeds of the provenance typing are stated assumptions.",
            "provenance/dimension typing lint over ast + apply_ufunc site rules + clang-AST definite-initialisation rules",
            "DESIGN.md section 4 C06"),
    "C09": (True, "other",
            "Decides the rule each split applies, structurally: the wave-age mask is the single comparison celerity(freq, "
            "depth) <= agefac*wspd*cos(D2R*(dir - wdir)) (operator, operands, no extra condition) and PTM4 masks one object "
            "by it and by its exact complement; bounding boxes: all-pairs overlap check raising ValueError before masking, "
            "closed four-sided masks, complement remainder, omitted limits defaulting to order-insensitive min()/max(); PTM5: "
            "closed cutoff comparators on one object, regrid only off-grid; band split: bracketing-node weights and spacing, "
            "label slicing, stats(limits) delegating to split; plus order provenance of directions. Also: split applies the direction band when EITHER limit is given.",
            "exact conservation in floating point and boundary bins where celerity equals the wind component up to rounding "
            "are not decided.",
            "custom ast structural rules (comparator/operand analysis, CFG ordering, default-agreement cross-check) + order provenance",
            "DESIGN.md section 4 C09"),
    "C19": (True, "other",
            "Decides the invariants of identifier bookkeeping from the shape of the code: every identifier store comes from "
            "the running counter (scalar slot, immediately incremented) or from the previous column at the locally matched "
            "row, so identifiers are 0..N-1 in order of first appearance, unique within a step and never reappear; the "
            "availability list is read by the candidate filter and the matched predecessor itself is retired; sentinel "
            "constants agree between matcher, propagator and _FillValue; the admissibility mask is the conjunction of the "
            "three threshold tests with sea thresholds for partition 0 and the threshold indexed at the interval's start; "
            "sites are vectorised. Also: no exit from the matcher before the marking loop; threshold vectors stay 1-D (indexed by the partition being continued); dfp_wsea's scaling multiplies the predicted frequency only.",
            "optimality of the greedy matching and behaviour for crossing systems beyond these invariants are not decided.",
            "custom ast typestate/pairing rules (store provenance, acquire-release pairing, sibling constant agreement)",
            "DESIGN.md section 4 C19"),
    "C14": (True, "other",
            "Decides the sphere-aware and convention-handling structure of station selection: the longitude difference is "
            "folded into [0,180] before entering the distance; provenance of box bounds (min - tol may only be a lower bound, "
            "max + tol only an upper one, per axis; the wrapped branch's genuine defect is a known finding); the three "
            "selectors agree on construction, swap-back of output longitudes and site renumbering; dispatcher table and "
            "ValueError; inverse-distance case analysis (1/d, zero-distance short cut, masking condition with its exception, "
            "normalisation); tolerance placement; strict '> 180' convention swap; no cached station coordinates / input edits.",
            "minimality of the selected station, numerical weights and which stations fall in a box for given data are not "
            "decided.",
            "custom ast structural rules (bound-provenance analysis, sibling cross-check, branch case analysis) + shared effect summaries",
            "DESIGN.md section 4 C14"),
    "C08": (True, "other",
            "Thin but real structural clauses of regridding: the seam padding uses only legal (guard sense, end index, relabel "
            "sign, side) tuples with order-insensitive min()/max() guards; directions are reduced % 360, de-duplicated and sorted "
            "before the seam neighbours are taken; frequency interpolation fills 0 outside the range and anchors zero energy at "
            "f=0; the variance factor is hs(source)^2/hs(result)^2 with the accessor's default Hs, applied last and "
            "unconditionally, on by default and forwarded; rotate has a single relabel-and-regrid path; order provenance. Also: every package caller of regrid_spec keeps variance conservation on or forwards its own switch; the target freq/dir arguments are only coerced to arrays, never recomputed.",
            "the numeric heart of the property (identity on identical grids, non-negativity, exact Hs, whole-bin rotation equals "
            "a circular shift) follows from properties of linear interpolation and is NOT decided.",
            "custom ast structural rules (pairing tuples, CFG order, factor provenance) + order provenance",
            "DESIGN.md section 4 C08"),
    "C16": (True, "other",
            "Structural clauses of smoothing: both windows validated (ValueError) before any data operation; legal circular "
            "padding triples whose width is data-flow-derived from the DIRECTION window (following the leaked loop variable to "
            "the last element of the literal it iterates); padding only under the absolute-value full-circle test; each window "
            "on its own dimension, centred mean; grid restored by label selection, input coordinates re-attached, NaN edges "
            "filled from the input; order provenance of the sort/pad/clip/relabel sequence.",
            "window-mean values, min/max bounds and commutation with circular shifts are numeric and not decided.",
            "custom ast structural rules (pairing triples, def-use of the pad width, validation dominance) + order provenance",
            "DESIGN.md section 4 C16"),
    "C01": (True, "other",
            "Units-of-measure and dimension typing of every integrated statistic: an abstract interpreter over the SpecArray "
            "methods (units m/s/deg, remaining spectral dims, interprocedural with call-site constants, 2-D and 1-D modes) infers "
            "each return type from the types of efth, freq, dir, df and dd and compares it with the CF units in attributes.yml; a "
            "missing or doubled bin width, a wrong power of frequency, a degree/radian slip, a reduction over the wrong dimension "
            "or an inconsistent sum changes the inferred type for every input. Plus the single 1-D/2-D integration path, "
            "sibling-constant agreement with the numpy twins, the exact deep-water closed forms and full coverage of the "
            "wavenumber polynomial, circular / uncached bin widths (shared). Also: no statistic writes the buffer of the spectrum it integrates (shared effect analysis); finite-depth celerity / wavelength go through wavenuma for every depth.",
            "numerical equality with the integrals, df-vs-freq mix-ups (same unit), float32/float64 agreement, the 0.1 % accuracy "
            "of the Chen-Thomson coefficients and hmax's wave count are NOT decided; gw has no unit obligation (see DESIGN).",
            "units-of-measure / dimension type inference (abstract interpretation over ast) against attributes.yml + sibling cross-check",
            "DESIGN.md section 4 C01"),
    "C10": (True, "other",
            "Homogeneity-degree typing decides the scaling clause exactly: the interpreter tracks each value's degree of "
            "homogeneity in the spectrum (product adds, quotient subtracts, power multiplies, sqrt halves, arctan2/comparison of "
            "equal degrees gives 0, a constant added to or compared with a degree != 0 quantity breaks it) and proves heights "
            "degree 1/2, drift/slope/moments 1, periods/directions/spreads/shape parameters 0 (one known finding: sw). Plus: "
            "direction results reduced mod 360 last, scale_by_hs structure (factor, closed ranges, either-bound activation), and "
            "for the rotation clause circular widths, coordinate-valued unconditional peak direction and no cached weights. Also: in the peak locator and peak kernels density-derived values are compared only with zero or with each other (scale-free peak detection).",
            "the inequalities (Tm02 <= Tm01, dspr <= 81.03, swe <= 1) are Cauchy-Schwarz-type numeric facts and rotation "
            "equivariance as such is not executed; eval(expr) is opaque.",
            "homogeneity-degree type inference (abstract interpretation over ast) + structural rules",
            "DESIGN.md section 4 C10"),
    "C12": (True, "other",
            "Unit and direction-convention typing of every converter: the units interpreter is seeded with each model's native "
            "convention (an independent table: WW3 m2 s rad-1 / nautical going-to degrees; SWAN netCDF m2 s rad-1 / radians; WWM "
            "action density over rad s-1 and radians; ERA5 log10 densities; NDBC m2 s with r1/r2 moments) and what each converter "
            "stores as efth, freq, dir, wspd, wdir must type as m2 s deg-1 (linear in the native density), Hz, degrees "
            "nautical coming-from in [0,360), m s-1: degree/radian factors however spelled, the 180-degree turn, mod 360, log "
            "handling (fillna only after 10**), clipping of the spreading series, the sigma->f Jacobian pairing; dispatcher order, "
            "ValueError fallback and reader contract (one known finding: ERA5 branch); no in-place scaling (shared).",
            "equality of integrated variance native vs converted is numeric and not decided; the native-convention table is the "
            "trusted base; WWM directions are assumed to span one circle.",
            "units / angle-convention type inference (abstract interpretation over ast) seeded from a native-convention table + dispatcher cross-check",
            "DESIGN.md section 4 C12"),
    "C15": (True, "other",
            "Structural clauses of spectrum construction: on every path with a requested Hs the last value-changing operation "
            "is scaled(spectrum, hs) = (hs/Hs)^2 * spectrum (so the measured Hs is exact by homogeneity); sign analysis shows each "
            "shape is a product of non-negative factors; shapes built on other shapes forward every shared parameter; the "
            "spreading function uses the folded angular distance (also for windows), is normalised by the sum of the same masked "
            "array over dir with circle measure 2 pi / N, types as degree^-1, and the 2-D spectrum is exactly shape x spreading; "
            "the construction and fitting implementations agree term by term (monomial normal form), PM equals JONSWAP's first "
            "two factors; circular bin widths (shared). Also: the numpy twin and utils.scaled scale through the library's own Hs; the TMA depth function is evaluated at the unclipped kd.",
            "the numeric identities (JONSWAP(gamma=1) = PM values, deep-water TMA = JONSWAP, measured dm/dspr equal the requested "
            "ones) are not decided.",
            "custom ast rules: CFG order, sign analysis, argument-forwarding cross-check, monomial normal-form sibling comparison, units typing",
            "DESIGN.md section 4 C15"),
    "C11": (True, "other",
            "Sibling cross-check of each writer/reader pair - necessary conditions of a round trip that are visible in the code: "
            "SWAN keyword vocabulary, NODATA/ZERO/FACTOR case split, inverse factor, constant-propagated time formats, unit "
            "line; grid location order of flatten vs reshape (known finding); JSON date formats and containers; WW3 tables, "
            "inverse rename, factors multiplying to one, 180-degree flip on both sides; Octopus energy<->density widths and "
            "table layout; Funwave amplitude formula composed with its inverse, direction involution; netCDF packing on a deep "
            "copy; chunk loops covering a trailing partial chunk; guard/action agreement in the shared stacking helper; "
            "direction sorting as a gather by one permutation. Also: per-record buffers of the SWAN reader are allocated inside the iteration that fills and emits them; Octopus per-record date fields are indexed by the record loop.",
            "round-trip EQUALITY quantifies over data values and number formatting and is NOT decided: numeric resolution, "
            "NaN/zero survival, gzip and off-by-one values inside the chunk loops are out of reach of a static argument.",
            "sibling-implementation cross-check over ast with constant propagation (tables, formats, factors, axis order)",
            "DESIGN.md section 4 C11"),
    "C13": (True, "other",
            "Only the clauses whose truth is in the shape of the code: constant-folded conversion factors (per radian -> per "
            "degree, rho g for energy units) and the guards that select them, axis order of the WW3-station reshape, spreading "
            "normalisation (shared with C15; NDBC constant term integrates to one), no scaling on the 1-D path, the exact "
            "product efth(f) x cartwright(dir, dmf, dsprf) on the 2-D path, presence of the time sort, and SWAN's direction "
            "sorting gathering labels and data by the same permutation. Also: per-record buffers allocated per iteration; reader classes memoise only construction-time state; read_swanow gives precedence to the newer file.",
            "parsing correctness (column order, header variants, timestamp parsing, multi-file concatenation) lives in runtime "
            "file contents and is NOT decided; this is the thinnest of the claimed checks.",
            "custom ast structural rules (constant folding, guard/branch pairing, exact-form checks) + shared spreading rules + rational-function comparison of an arithmetic progression's start / step / count with the header values",
            "DESIGN.md section 4 C13"),
}

NA_DEFAULT = "check under construction in this build round (see DESIGN.md section 8)"


# clauses added after the third round of independent mutations (DESIGN.md section 10.3); appended to the level text
ROUND3 = {
    "C01": "Also: ratio statistics take no energy total from the tail-including hs() (same band, same quadrature); degenerate-case guards compare scale-free quantities; label-level code never lets a bare ndarray taken out of a labelled array meet labelled data positionally.",
    "C03": "Also: the sort key is the library Hs with default options; the wind-sea fraction is computed from the partition that is returned.",
    "C04": "Also: every direction row lists its neighbours in the same displacement order (the immersion depends on slot order); the wrapper forwards nk, nth, ihmax unchanged and the native routines never reassign their scalar parameters.",
    "C05": "Also: no bare ndarray taken out of a labelled array (.values / .data / np.asarray) is combined with labelled data or indexed by a positional axis in label-level code.",
    "C06": "Also (shared with C05): no positional axis / Ellipsis index / positional broadcast on the bare data of a labelled array.",
    "C07": "Also (shared with C04): every kernel hands the native routine a C-contiguous float32 copy of its block.",
    "C08": "Also: the accessor wrappers hand the caller's targets on unchanged; de-duplication keeps one representative per direction; np.interp in the numpy kernel fills zero on both sides.",
    "C09": "Also: the cutoff of ptm5 and the limits compared by is_overlap are the caller's values, never redefined before use.",
    "C11": "Also: no writer has a write effect on the dataset it serialises (shared effect analysis); to_swan fixes the complete axis order before positional reads; coordinate values captured before a re-ordering along that coordinate are not used afterwards.",
    "C12": "Also: NDBC r1/alpha1 and r2/alpha2 pairing through the helper's argument binding; no rounding of converted coordinates; the dispatcher's name set contains dimensions as well as variables.",
    "C13": "Also: per-record lists drawn from one sequence of parsed records are re-ordered together or not at all; the NDBC date-column offset follows the detected header variant.",
    "C14": "Also: the longitude fold is unconditional with operands reduced modulo 360; the station list is filled in query order and never rebuilt; the tolerance widens the bounds after the convention handling.",
    "C15": "Also (shared with C01): the accessor's dm / dspr divide moments taken over one band.",
    "C16": "Also: the circularity test is a function of direction differences only (independent of the grid's origin); the accessor hands smooth_spec the array itself.",
    "C17": "Also: effects through **kwargs kept in instance fields and through __call__ of package classes are followed.",
    "C18": "Also: every lookup of the auto-vivifying attribute table with a non-constant key is dominated by a membership test (one obligation per site).",
    "C20": "Also: the label map handed back to Python is written on every exit of partition() or zero-filled at allocation; a replacement index window [p, p+1] needs a dominating 'p is not last' test; core-dimension chunking (shared with C07).",
}


# clauses added after the fourth round (DESIGN.md section 10.3)
ROUND5 = {
    "C01": "Reductions in the numpy twins take literal axes; the mean direction's outermost modulo (precedence included).",
    "C02": "npstats.tps returns 1 / vertex of the three-point parabola on every path, decided as a rational-function identity (sub-case shortcuts under their own condition); every xrstats peak statistic goes through its npstats kernel.",
    "C04": "GIL held around partition(); ihmax and the other ptm3 parameters reach the watershed (no unused parameter, operands in the slots they are named after); the step-2 candidate test decided by truth table whatever comparison operator it uses.",
    "C05": "assign_coords never stamps another labelled object's coordinates onto data; the SWAN writer fixes the full named axis order; signed np.diff of a kernel's caller-ordered direction argument is reported by the order provenance.",
    "C06": "GIL held around partition(); every apply_ufunc aligns by label (default join) and forwards operands in the slots of the kernel parameters they are named after.",
    "C09": "Deep-water celerity only without a depth (shared with C01).",
    "C10": "No narrowing cast after the last modulo 360 (found and repaired: npstats.dpm returned 360.0); dp's arg-max on the stored order and the full-precision peak locator (shared with C02).",
    "C11": "SWAN writer: NODATA decided on a NaN-propagating reduction; each block written with the time stamps of the same positions; frequencies printed with >= 5 decimals; time encodings keep 64 bits; writers do not fill missing values (to_octopus exempt by table).",
    "C12": "Conversion factors are unconditional (no run-time 'already in degrees?' heuristic); the dispatcher's identifying sets are followed to module level.",
    "C13": "TRIAXYS frequency axis = f0 + k df, k < nf, decided as a rational-function identity; epoch time stamps converted with an explicit time zone; Spotter positions stay per record; interp_spec zero-fills outside the source frequencies (shared with C08).",
    "C14": "The bbox tolerance widens all four sides (parallel assignments included); the idw combination uses no NaN-skipping reduction.",
    "C15": "The effective under_90 of every cartwright() call is False.",
    "C16": "The rolling mean is not evaluated block by block unless both windowed dimensions are single chunks; its result is not cast to the input's dtype; the spacing entering the full-circle test is not rounded.",
    "C17": "DataArray.rename(name) shares the Variable; isinstance narrows a parameter's kind (attrs of a DataArray live on its Variable).",
    "C19": "Tracking tolerances reach the kernel in the slots of the parameters they are named after.",
    "C20": "getattr-by-name results are called only under callable() with ValueError otherwise; elements of difference vectors are subscripted only under a length test; no function-scope static in specpart.c; the counting sort of ptsort is recognised structurally (its slot bound stays a stated assumption); every curve_fit of the fitting kernels is guarded against ValueError, RuntimeError and OptimizeWarning; differences of a possibly one-element axis are consumed only under a size test (found and repaired: tracker with one time step).",
}
ROUND4 = {
    "C01": "stats() with band limits = statistics of one split spectrum; Stokes-drift components related by theta - 90; wavenumber polynomial checked by coefficient / power pairing.",
    "C02": "Peak parameters through stats() come from the split spectrum; no peak parameter masked by an absolute energy threshold; a one-frequency tail window keeps its frequency.",
    "C03": "(shared) the wavenumber polynomial behind the wind-sea test sums every coefficient with its own power.",
    "C04": "The level loop cannot exit before flooding its level; no file-scope / static object in the C wrapper.",
    "C05": "No flatten / ravel / reshape in memory or Fortran order.",
    "C06": "One peak locator whatever the number of non-spectral dimensions; generator conditions over per-spectrum data are branches on data; fresh label map per call.",
    "C07": "No store through .values / .data (lost on dask-backed data); no process-wide setting changed inside a dask task without a lock (found and repaired: fit_jonswap / fit_gaussian).",
    "C08": "Circular bin widths and index-order flattening in the regridding kernels.",
    "C09": "Independent insertion of the two band cutoffs; stats() dispatch; wavenumber polynomial.",
    "C10": "Ratio statistics use one quadrature; scale_by_hs narrows its condition.",
    "C11": "Circular bin widths; longitudes written as given.",
    "C12": "Direction conventions converted by re-labelling, never by rolling data.",
    "C13": "Reader objects allocate element-wise filled attributes unconditionally; interp_spec never returns its input.",
    "C15": "Divisors behind a lower limiter have a positive floor; the TMA depth function has no inf/inf quotient.",
    "C16": "Input returned unsmoothed only for windows (1, 1); dimension order restored after a transpose; windows forwarded by every caller.",
    "C18": "No process-wide setting changed inside a dask task without a lock; nothing in the C wrapper outlives a call.",
    "C19": "Per-site count is the tracker's own output; unit-safe time step.",
    "C20": "GIL held for the native call; availability test before list.remove; spectral dimensions tested against .dims.",
}


ROUND7 = {
    "C02": "No statistic changes the length of a spectral axis depending on the data (dropna / where(drop=True)): the positional peak index stays on the axis it was computed on.",
    "C03": "smooth_spec fills the edge NaN of the centred window from the input on every path (a NaN bin is owned by no partition).",
    "C06": "No data-dependent axis length in the statistics; per-spectrum kernels of apply_ufunc and what they call write no module-level object or mutable default (shared effect analysis).",
    "C07": "Stores through a local alias of .values / .data are stores through .values; no computational entry point writes in place into a view of its input (numpy aliases, dask does not).",
    "C09": "No numeric control parameter is defaulted with `p or <non-zero constant>` (a caller's 0 is legitimate); split()'s result depends on all four limits on the all-steps path (strong-update data dependence).",
    "C10": "Constant offsets that meet the stored direction coordinate additively are floats (NumPy 2 promotion of integer labels).",
    "C11": "No writer reads freq / dir / dd through SpecDataset's construction-time copies of the accessor attributes (found and repaired e94d467).",
    "C12": "arange / linspace grids do not borrow their dtype from a data variable.",
    "C13": "arange / linspace grids do not borrow their dtype from file data; no zip() pairs a fixed-length literal with file-derived columns without strict=True.",
    "C15": "No limiter on the cos-2s spreading exponent; alternatives are selected with where(), never blended as c*a + (1-c)*b.",
    "C16": "The edge NaN of the centred window is filled from the input on every path.",
    "C18": "Every consumer of SpecDataset's construction-time snapshot of the accessor attributes (writers, SpecDataset methods) is its own finding (three pinned writers repaired, e94d467).",
    "C19": "No tracking threshold defaulted with `p or <non-zero constant>`; the peak-frequency change compared with the asymmetric window is current minus previous.",
}


ROUND8 = {
    "C01": "No direction bin width from the extent max(dir) - min(dir) of the axis.",
    "C03": "No partition list rebuilt through a collection keyed by a computed statistic (equal Hs collide).",
    "C04": "No partition list rebuilt through a collection keyed by a computed statistic (a basin found by the watershed would be dropped); a bin is queued at most once per visit (fifo_add of the visited bin inside its neighbour loop is followed by break: the FIFO is a ring of nspec slots).",
    "C05": "Peak direction taken on the spectrum as stored (shared with C02); the native watershed-line reassignment double-buffers (shared with C04); no width from the axis extent.",
    "C09": "Band-limit validation tests limits with `is not None`, never by truthiness.",
    "C10": "No hidden absolute tolerance (np.isclose / allclose without atol=0) on spectrum-derived quantities.",
    "C11": "Converters map the stored density linearly and unconditionally (no value mask, no metadata guard); the Octopus row format has floating-point conversions only.",
    "C12": "Density / coordinate conversions of the model converters are unconditional (presence of variables and arguments aside) and linear.",
    "C13": "Readers never fold a longitude read from a file modulo 360.",
    "C14": "The longitude-convention branch of the selectors is chosen from the dataset's longitudes.",
    "C16": "smooth_spec never casts the spectra to a narrower type.",
    "C20": "split() slices direction labels only on data sorted in the same function; argument validation never tests numeric limits by truthiness.",
}
HYGIENE = "Package-wide hygiene in the property's modules: no result of a non-mutating xarray / pandas method discarded, no `p or <non-zero constant>` defaulting of numeric parameters."


def main():
    props = [json.loads(l) for l in open(os.path.join(HERE, "properties.jsonl"))]
    checks, na = [], []
    for p in props:
        pid = p["id"]
        c = CHECKS.get(pid)
        if c and c[0]:
            checks.append({
                "property_id": pid,
                "quick_cmd": f"./vcheck {pid} --tier quick",
                "thorough_cmd": f"./vcheck {pid} --tier thorough",
                "evidence_file": f"/verif/evidence/{pid}.json",
                "replay_cmd_template": f"./vcheck {pid} --explain 0  # replay file: {{path}}",
                "engine": "vsa",
                "level_claimed": {"category": c[1], "text": (c[2] + " " + ROUND3.get(pid, "") + (" Round 4: " + ROUND4[pid] if pid in ROUND4 else "") + (" Round 5: " + ROUND5[pid] if pid in ROUND5 else "") + (" Round 7: " + ROUND7[pid] if pid in ROUND7 else "") + (" Round 8: " + ROUND8[pid] if pid in ROUND8 else "") + (" " + HYGIENE if pid not in ("C07", "C17", "C18", "C04") else "")).strip(), "design_ref": c[5]},
                "level_note": COMMON_TRUST + c[3],
                "technique": c[4],
            })
        else:
            na.append({"property_id": pid, "reason": (c[3] if c else NA_DEFAULT)})
    m = {
        "version": 1,
        "setup_cmd": "sh -c 'if [ -x /venv/bin/python ]; then PY=/venv/bin/python; else PY=python3; fi; "
                     "$PY -c \"import ast, json\" && clang --version >/dev/null && mkdir -p /verif/evidence'",
        "hooks": {
            "guard": "WAVESPECTRA_VERIF",
            "enable": "none: static analysis needs no instrumentation; there are no hook commits",
            "baseline_off_cmd": "cd /repo && env -u WAVESPECTRA_VERIF /venv/bin/python -m pytest -ra -q -p no:cacheprovider "
                                "--timeout=900 --continue-on-collection-errors",
            "source_commits": [],
            "add_only": True,
        },
        "engines": [{
            "name": "vsa",
            "path": "/verif/sa",
            "serves_properties": [c["property_id"] for c in checks],
            "kind_free_text": "repository-specific static analyser: Python ast model (symbols, constants, call graph, CFG, "
                              "reaching definitions, effect/units/dims abstract domains) and clang JSON AST rules for the C "
                              "extension; never imports or runs wavespectra",
        }],
        "checks": checks,
        "notes": "Static analysis only. ./vcheck <id> exits 0 (held), 1 (VIOLATION lines), 2 (ANALYSIS-ERROR: anchor "
                 "vanished / idiom unknown). Known findings: /verif/known_findings.json. See DESIGN.md.",
        "not_applicable": na,
    }
    json.dump(m, open(os.path.join(HERE, "MANIFEST.json"), "w"), indent=1)
    print(f"checks={len(checks)} not_applicable={len(na)}")


if __name__ == "__main__":
    main()

# self-check: a malformed table must never produce an invalid MANIFEST silently
_m = json.load(open(os.path.join(HERE, "MANIFEST.json")))
for _c in _m["checks"]:
    assert _c["level_claimed"]["category"] in CATEGORIES, ("bad category", _c["property_id"])
    assert _c["quick_cmd"].startswith("./vcheck") and _c["thorough_cmd"].startswith("./vcheck")
