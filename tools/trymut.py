#!/usr/bin/env python3
"""Development helper: apply each candidate mutation patch to /repo, run the checks, revert.
usage: trymut.py [--all-checks] [dir ...]   (default dirs: /tmp/mut/out/C*/mut* and /verif/seeded/*)"""
import glob, json, os, subprocess, sys
forced = [a.split("=")[1] for a in sys.argv[1:] if a.startswith("--check=")]
args = [a for a in sys.argv[1:] if not a.startswith("--")]
allchecks = "--all-checks" in sys.argv
dirs = args or sorted(glob.glob("/tmp/mut/out/C*/mut*")) + sorted(glob.glob("/verif/seeded/*"))
armed = sorted(os.path.basename(f)[:-3].upper() for f in glob.glob("/verif/sa/rules/c[0-9][0-9].py"))
def sh(*c, **k): return subprocess.run(c, capture_output=True, text=True, **k)
assert sh("git", "-C", "/repo", "status", "--porcelain", "--untracked-files=no").stdout.strip() == "", "repo dirty"
for d in dirs:
    patch = os.path.join(d, "patch.diff")
    if not os.path.exists(patch): continue
    meta = {}
    try: meta = json.load(open(os.path.join(d, "meta.json")))
    except Exception: pass
    prop = meta.get("property") or os.path.basename(os.path.dirname(d))
    r = sh("git", "-C", "/repo", "apply", patch)
    if r.returncode != 0:
        print(f"{d}: PATCH DOES NOT APPLY: {r.stderr.strip()[:200]}"); continue
    try:
        res = {}
        for c in (armed if allchecks else (forced or [prop])):
            if c not in armed: res[c] = "n/a"; continue
            q = sh("/verif/vcheck", c, cwd="/verif", env=dict(os.environ, VSA_EVID="/tmp/trymut-evid"))
            res[c] = {0: "pass", 1: "VIOL", 2: "ERR"}.get(q.returncode, str(q.returncode))
            if (c == prop or c in forced) and q.returncode == 1:
                first = [l for l in q.stdout.splitlines() if l.startswith("  ")][:1]
                res[c] += " " + (first[0].strip()[:150] if first else "")
            if q.returncode == 2:
                res[c] += " " + q.stdout.strip()[:150]
        caught = [c for c, v in res.items() if v.startswith("VIOL")]
        print(f"{d} [{prop}] caught_by={caught or '-'} :: " + "; ".join(f"{c}={v}" for c, v in res.items() if v not in ("pass",)))
    finally:
        sh("git", "-C", "/repo", "checkout", "--", ".")
