#!/usr/bin/env python3
"""Development helper: confirm each candidate mutation in its scratch worktree:
demo passes on the clean tree, fails with the patch, and the pinned baseline tests still pass with the patch.
usage: MUT_ROOT=/tmp/mut2 verify_seeded.py <prop> ...   writes $MUT_ROOT/out/<prop>/verify.json"""
import json, os, subprocess, sys, xml.etree.ElementTree as ET
ROOT = os.environ.get("MUT_ROOT", "/tmp/mut")
base = set(json.load(open("/root/.vp/BASELINE.json"))["stable_pass"])
head = subprocess.run(["git", "-C", "/repo", "rev-parse", "HEAD"], capture_output=True, text=True).stdout.strip()
SO = "/repo/wavespectra/partition/specpart.cpython-312-x86_64-linux-gnu.so"
def sh(cmd, cwd, **k): return subprocess.run(cmd, cwd=cwd, capture_output=True, text=True, **k)
for prop in sys.argv[1:]:
    wt = f"{ROOT}/{prop}"
    out = {}
    sh(["git", "checkout", "-q", "--", "."], wt); sh(["git", "checkout", "-q", "--detach", head], wt)
    sh(["cp", SO, f"{wt}/wavespectra/partition/"], wt)
    for k in (1, 2, 3):
        d = f"{ROOT}/out/{prop}/mut{k}"
        if not os.path.exists(f"{d}/patch.diff"): continue
        r = {}
        clean = sh(["/venv/bin/python", "-W", "ignore", f"{d}/demo.py"], wt, timeout=900)
        r["demo_clean_rc"] = clean.returncode
        ap = sh(["git", "apply", f"{d}/patch.diff"], wt)
        r["applies"] = ap.returncode == 0
        if not r["applies"]:
            out[f"mut{k}"] = r; continue
        touched_c = any(l.startswith("+++ ") and l.strip().endswith((".c", ".h")) for l in open(f"{d}/patch.diff"))
        if touched_c:
            b = sh(["/venv/bin/python", "setup.py", "build_ext", "--inplace"], wt)
            r["rebuilt"] = b.returncode == 0
        try:
            mut = sh(["/venv/bin/python", "-W", "ignore", f"{d}/demo.py"], wt, timeout=900)
            r["demo_mut_rc"] = mut.returncode
        except subprocess.TimeoutExpired:
            r["demo_mut_rc"] = "timeout"
        xml = f"{ROOT}/out/{prop}/verify_mut{k}.xml"
        env = dict(os.environ); env.pop("PYTHONPATH", None)
        sh(["/venv/bin/python", "-m", "pytest", "-q", "-p", "no:cacheprovider", "--timeout=900", "--continue-on-collection-errors", "-n", "3", f"--junitxml={xml}"], wt, env=env)
        passed = set()
        try:
            for tc in ET.parse(xml).getroot().iter("testcase"):
                if not any(c.tag in ("failure", "error", "skipped") for c in tc):
                    passed.add(f"{tc.get('classname')}::{tc.get('name')}")
        except Exception as e:
            r["junit_error"] = str(e)
        r["baseline_missing"] = sorted(base - passed)[:5]
        r["tests_passed"] = len(passed)
        sh(["git", "checkout", "-q", "--", "."], wt)
        if touched_c:
            sh(["cp", SO, f"{wt}/wavespectra/partition/"], wt)
            sh(["rm", "-rf", "build"], wt)
        r["ok"] = r["demo_clean_rc"] == 0 and r.get("demo_mut_rc") not in (0, None) and not r["baseline_missing"] and len(passed) >= len(base)
        out[f"mut{k}"] = r
        print(prop, f"mut{k}", r, flush=True)
    json.dump(out, open(f"{ROOT}/out/{prop}/verify.json", "w"), indent=1)
