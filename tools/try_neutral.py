#!/usr/bin/env python3
"""Development helper: run every check on behaviour-preserving refactorings produced by independent sub-agents.
For each <src>/C*/ref*/patch.diff a scratch copy of /repo's sources is made under $TMPDIR, the patch applied, and all 20 checks
run with VSA_REPO/VSA_EVID pointing at the scratch.  Any verdict that differs from the unmodified tree's (exit code or number of
known findings) is a FALSE ALARM / brittleness of the checker and is printed.  Nothing is written under /repo or /verif/evidence.
usage: try_neutral.py [--src=/tmp/neu/out] [-j N] [--save [--tag=r2]]     (--save copies confirmed-neutral patches to /verif/neutral/)"""
import concurrent.futures as cf, glob, json, os, shutil, subprocess, sys, tempfile
VERIF = os.path.dirname(os.path.dirname(os.path.abspath(__file__)))
PROPS = os.environ.get("VSA_PROPS", "").split() or [f"C{n:02d}" for n in range(1, 21)]
src = next((a.split("=")[1] for a in sys.argv if a.startswith("--src=")), "/tmp/neu/out")
jobs = int(sys.argv[sys.argv.index("-j") + 1]) if "-j" in sys.argv else 10
only = [a for a in sys.argv[1:] if a.startswith("C") and len(a) == 3]

def verdicts(root):
    ev = os.path.join(root, "_evid")
    env = dict(os.environ, VSA_REPO=root, VSA_EVID=ev)
    out = {}
    for p in PROPS:
        q = subprocess.run([os.path.join(VERIF, "vcheck"), p], capture_output=True, text=True, env=env, cwd=VERIF, timeout=900)
        known = sum(1 for l in q.stdout.splitlines() if l.startswith("KNOWN-FINDING"))
        first = next((l.strip()[:230] for l in q.stdout.splitlines() if l.startswith("  ") or l.startswith("ANALYSIS-ERROR")), "")
        out[p] = (q.returncode, known, first)
    return out

def one(d):
    tmp = tempfile.mkdtemp(prefix="neutral-")
    try:
        shutil.copytree("/repo/wavespectra", os.path.join(tmp, "wavespectra"), ignore=shutil.ignore_patterns("__pycache__", "*.so", "*.o"))
        if d is not None:
            r = subprocess.run(["patch", "-p1", "-s", "-d", tmp, "-i", os.path.join(d, "patch.diff")], capture_output=True, text=True)
            if r.returncode:
                return d, {"error": (r.stdout + r.stderr)[:200]}
        return d, verdicts(tmp)
    finally:
        shutil.rmtree(tmp, ignore_errors=True)

dirs = [d for d in sorted(glob.glob(os.path.join(src, "C*", "*ref*"))) if os.path.exists(os.path.join(d, "patch.diff"))
        and (not only or os.path.basename(os.path.dirname(d)) in only)]
res = {}
with cf.ProcessPoolExecutor(jobs) as ex:
    for d, r in ex.map(one, [None] + dirs):
        res[d] = r
base = res.pop(None)
bad = 0
summary = {}
for d in dirs:
    r = res[d]
    tag = f"{os.path.basename(os.path.dirname(d))}/{os.path.basename(d)}"
    if "error" in r:
        print(tag, "PATCH ERROR", r["error"]); continue
    diffs = [(p, r[p]) for p in PROPS if r[p][:2] != base[p][:2]]
    try:
        kind = json.load(open(os.path.join(d, "meta.json"))).get("kind")
    except Exception:
        kind = "?"
    summary[tag] = {"kind": kind, "changed": {p: {"rc": v[0], "known": v[1], "first": v[2]} for p, v in diffs}}
    if diffs:
        bad += 1
        for p, v in diffs:
            print(f"{tag} [{kind}] {p}: rc {base[p][0]}->{v[0]} known {base[p][1]}->{v[1]} :: {v[2]}")
    else:
        print(f"{tag} [{kind}] stable")
print(f"neutral refactorings: {len(dirs)} tried, {bad} with a changed verdict")
json.dump(summary, open(os.path.join(src, "neutral_summary.json"), "w"), indent=1)
if "--save" in sys.argv:
    for d in dirs:
        tag = f"{os.path.basename(os.path.dirname(d))}-{os.path.basename(d)}"
        pre = next((a.split("=")[1] for a in sys.argv if a.startswith("--tag=")), "")
        out = os.path.join(VERIF, "neutral", os.path.basename(os.path.dirname(d)), pre + os.path.basename(d))
        os.makedirs(out, exist_ok=True)
        for f in ("patch.diff", "meta.json", "equiv.py"):
            if os.path.exists(os.path.join(d, f)):
                shutil.copy(os.path.join(d, f), out)
