#!/usr/bin/env python3
"""Development helper: copy confirmed seeded mutations into /verif/seeded/<Cxx-mutK>/ and compute, for each, which checks fire.

For every mutation directory (default /tmp/mut/out/C*/mut*) that tools/verify_seeded.py confirmed (demo passes on the clean
tree, fails with the patch, pinned suite still passes), a scratch copy of /repo's sources is made under $TMPDIR, the patch is
applied there, all 20 checks are run with VSA_REPO/VSA_EVID pointing at the scratch (never touching /repo or /verif/evidence),
and the scratch copy is removed.  Writes seeded/<id>/{patch.diff,demo.py,meta.json} and seeded/MATRIX.json.
usage: save_seeded.py [-j N] [--src=/tmp/mut/out] [--rescan]   (--rescan: recompute the matrix for /verif/seeded/* in place)
"""
import concurrent.futures as cf, glob, json, os, shutil, subprocess, sys, tempfile
VERIF = os.path.dirname(os.path.dirname(os.path.abspath(__file__)))
PROPS = [f"C{n:02d}" for n in range(1, 21)]
src = next((a.split("=")[1] for a in sys.argv if a.startswith("--src=")), "/tmp/mut/out")
jobs = int(sys.argv[sys.argv.index("-j") + 1]) if "-j" in sys.argv else 12
rescan = "--rescan" in sys.argv
dry = "--dry" in sys.argv          # only print which checks fire; ignore verify.json; save nothing
tag = next((a.split("=")[1] for a in sys.argv if a.startswith("--tag=")), "")   # e.g. r2 -> seeded/C01-r2mut1

def one(d):
    patch = os.path.join(d, "patch.diff")
    tmp = tempfile.mkdtemp(prefix="seeded-")
    try:
        subprocess.run(["git", "-C", "/repo", "worktree", "list"], capture_output=True)
        shutil.copytree("/repo/wavespectra", os.path.join(tmp, "wavespectra"), ignore=shutil.ignore_patterns("__pycache__", "*.so", "*.o"))
        for f in ("setup.py", "pyproject.toml"):
            if os.path.exists(f"/repo/{f}"):
                shutil.copy(f"/repo/{f}", tmp)
        r = subprocess.run(["patch", "-p1", "-s", "-d", tmp, "-i", patch], capture_output=True, text=True)
        if r.returncode:
            return d, {"error": "patch does not apply: " + (r.stdout + r.stderr)[:200]}
        ev = os.path.join(tmp, "_evid")
        env = dict(os.environ, VSA_REPO=tmp, VSA_EVID=ev)
        res = {}
        for p in PROPS:
            q = subprocess.run([os.path.join(VERIF, "vcheck"), p], capture_output=True, text=True, env=env, cwd=VERIF, timeout=900)
            ent = {"rc": q.returncode}
            if q.returncode == 1:
                ent["first"] = next((l.strip()[:220] for l in q.stdout.splitlines() if l.startswith("  ")), "")
            elif q.returncode == 2:
                ent["first"] = q.stdout.strip().splitlines()[-1][:220] if q.stdout.strip() else q.stderr[-200:]
            res[p] = ent
        return d, res
    finally:
        shutil.rmtree(tmp, ignore_errors=True)

if rescan:
    dirs = sorted(x for x in glob.glob(os.path.join(VERIF, "seeded", "*")) if os.path.isdir(x))
else:
    dirs = []
    for d in sorted(glob.glob(os.path.join(src, "C*", "mut*"))):
        prop = os.path.basename(os.path.dirname(d))
        vf = os.path.join(os.path.dirname(d), "verify.json")
        ver = json.load(open(vf)).get(os.path.basename(d), {}) if os.path.exists(vf) else {}
        if not os.path.isdir(d) or not os.path.exists(os.path.join(d, "patch.diff")):
            continue
        if not ver.get("ok") and not dry:
            print("skip (not confirmed):", d)
            continue
        dirs.append(d)
matrix = {}
with cf.ProcessPoolExecutor(jobs) as ex:
    for d, res in ex.map(one, dirs):
        if dry:
            prop = os.path.basename(os.path.dirname(d))
            if "error" in res:
                print(d, res)
                continue
            own = res[prop]
            print(f"{prop}/{os.path.basename(d)} own={ {0: 'MISSED', 1: 'caught', 2: 'ERR'}[own['rc']]} caught_by={[p for p in PROPS if res[p]['rc'] == 1]} "
                  f"err={[p for p in PROPS if res[p]['rc'] == 2]} :: {own.get('first', '')[:150]}")
            continue
        if rescan:
            out = d
            meta = json.load(open(os.path.join(out, "meta.json")))
            sid = os.path.basename(d)
        else:
            prop = os.path.basename(os.path.dirname(d))
            sid = f"{prop}-{tag}{os.path.basename(d)}"
            out = os.path.join(VERIF, "seeded", sid)
            os.makedirs(out, exist_ok=True)
            shutil.copy(os.path.join(d, "patch.diff"), out)
            shutil.copy(os.path.join(d, "demo.py"), out)
            am = json.load(open(os.path.join(d, "meta.json")))
            ver = json.load(open(os.path.join(os.path.dirname(d), "verify.json")))[os.path.basename(d)]
            meta = {
                "property": prop,
                "source": am.get("origin", "round 1: fresh sub-agent given only the property text and a scratch worktree"),
                "files": am.get("files"),
                "what_changes": am.get("summary"),
                "needs_to_manifest": am.get("needs"),
                "rebuild_c_extension": bool(am.get("rebuild_c_extension")),
                "confirmed_by_me": {
                    "how": "tools/verify_seeded.py: fresh worktree of /repo HEAD under /tmp; demo.py run on the clean worktree, patch applied "
                           "(git apply), C extension rebuilt when touched, demo.py run again, pinned suite (BASELINE.json command, junit) run "
                           "on the patched worktree and compared with stable_pass; worktree removed",
                    "demo_exit_clean": ver.get("demo_clean_rc"), "demo_exit_patched": ver.get("demo_mut_rc"),
                    "pinned_tests_passed_patched": ver.get("tests_passed"), "baseline_tests_lost": ver.get("baseline_missing"),
                },
            }
        if "error" in res:
            print(sid, "PATCH-ERROR", res["error"][:120])
            continue
        else:
            meta["caught_by"] = [p for p in PROPS if res[p]["rc"] == 1]
            meta["analysis_error_in"] = [p for p in PROPS if res[p]["rc"] == 2]
            meta["own_property_verdict"] = {0: "MISSED", 1: "caught", 2: "analysis-error (fail-closed)"}[res[meta["property"]]["rc"]]
            meta["first_report"] = {p: res[p].get("first") for p in PROPS if res[p]["rc"] in (1, 2)}
        json.dump(meta, open(os.path.join(out, "meta.json"), "w"), indent=1)
        matrix[sid] = {"property": meta["property"], "caught_by": meta.get("caught_by"), "analysis_error_in": meta.get("analysis_error_in"),
                       "own": meta.get("own_property_verdict")}
        print(sid, meta.get("own_property_verdict"), meta.get("caught_by"), meta.get("analysis_error_in"))
if not dry:
    mp = os.path.join(VERIF, "seeded", "MATRIX.json")
    old = json.load(open(mp)) if os.path.exists(mp) and not rescan else {}
    old.update(matrix)
    json.dump(old, open(mp, "w"), indent=1, sort_keys=True)
