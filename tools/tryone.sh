#!/bin/sh
# Development helper: run checks on a scratch copy of /repo's sources with one patch applied.
# usage: tryone.sh <dir with patch.diff> <prop> [prop ...]
d="$(cd "$1" && pwd)"; shift
t=$(mktemp -d /tmp/tryone-XXXXXX)
cp -r /repo/wavespectra "$t/wavespectra"
find "$t" -name __pycache__ -prune -exec rm -rf {} + 2>/dev/null
patch -p1 -s -d "$t" -i "$d/patch.diff" || { echo "patch failed"; rm -rf "$t"; exit 3; }
for p in "$@"; do
  VSA_REPO="$t" VSA_EVID="$t/_e" timeout 300 /verif/vcheck "$p" | grep -A1 "^  wave\|^OK\|^FAIL\|ANALYSIS-ERROR" | grep -v "^VIOLATION\|^--" | cut -c1-420 | head -${LINES_MAX:-8}
done
rm -rf "$t"
